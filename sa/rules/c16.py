"""C16 — the file-backed key-value and table stores are persistent dictionaries.

Structural clauses decided: a missing key is reported as undefined by every store facade; every set
reaches the file that a later get of that key reads (same path expression, injective key mapping);
encoder and decoder of each facade are the matching pair; eviction and unloading never touch the disk;
bytes are added to the accounting only under a successful capacity check, for the amount recorded in the
entry, and a refused operation changes nothing.  The history-level map behaviour is NOT decided.
"""
import ast
import re

from ..model import AnalysisError, src, callee_name, dotted, walk_local, calls_in, FUNC
from ..flow import Sem, atoms_at, handler_names
from ..callgraph import CallGraph
from ..common import resolve_single_assign, ancestors
from ..selftest import Seed
from . import c18

META = {
    "technique": "error-discipline check over the resolved call graph, path/codec table agreement between writer and reader, who-may-delete, guard dominance and pairing of the byte accounting, handler-breadth rule for the absent decision, freshness of the frame handed out by the table facade",
    "level_text": "Static proof over all facade methods and cache routines of structural necessary conditions of 'persistent dictionary': missing key => undefined on every facade, one path expression shared by writer, loader and existence probe, an injective key->path mapping, matching serialiser pairs, no file removal anywhere in the store, accounting that adds exactly what it records under a capacity check. Holds for all operation histories and limits; the map semantics over histories is not decided.",
    "level_note": "decides the structural clause below from source; does not decide the behaviour. Trusted: pickle.dump/load and DataFrame.to_pickle/read_pickle are inverse pairs; os.path.join is deterministic; FileNotFoundError is what get_file raises for a missing file (checked).",
    "explanation": (
        "Static analysis of klongpy/db/{file_cache,df_cache,sys_fn_kvs,helpers}.py: the raise site of FileNotFoundError in the cache's get is located and every facade "
        "get that reaches it (resolved call graph) must catch it and return the undefined marker; the path expressions of the write routine, the load "
        "routine and the existence probe are compared; the key->path function must be the identity or a listed injective encoding; each facade's "
        "set/get serialisers must be a serialize_X/deserialize_X pair whose bodies use the matching library pair; no file-system deletion/rename in "
        "klongpy/db; the accounting rules of C18-R4/R5 (pairing, capacity check, refusal before mutation) are evaluated here as well."
        " R6: handlers around cache reads that do not re-raise catch FileNotFoundError only; the table returned by the table facade's get owns a copy of the cached frame."),
    "assumptions": ["file names are used as given by the key->path function (no normalisation by the OS beyond POSIX path semantics)"],
}

DB = ("db/file_cache", "db/df_cache", "db/sys_fn_kvs", "db/helpers", "db/sys_fn_db")
KVS = "db/sys_fn_kvs"
FCM = "db/file_cache"
LOSSY = {"replace", "sub", "translate", "lower", "upper", "casefold", "strip", "lstrip", "rstrip", "normpath", "basename", "abspath", "realpath", "split", "title", "capitalize", "encode_lossy", "expanduser"}
INJECTIVE = {"str", "quote", "quote_plus", "hexlify", "b64encode", "urlsafe_b64encode", "hex"}


def check(ctx):
    repo = ctx.repo
    cg = CallGraph(repo)
    ctx.rule("C16-R1", "error discipline: the cache's get raises FileNotFoundError for a missing file; every dict-facade get that reaches it handles it and returns the undefined marker")
    ctx.rule("C16-R2", "path agreement: the write routine, the load routine and the existence probe use the same expression join(root_path, file_name); both facade directions map the key through the same, injective, key->path function")
    ctx.rule("C16-R3", "codec pairing: each facade's set-side encoder and get-side decoder are a serialize_X/deserialize_X pair using the matching library calls")
    ctx.rule("C16-R4", "WHO-MAY(delete/rename/truncate of files) in klongpy/db is empty (eviction and unloading are memory-only); positive control elsewhere in the repo")
    ctx.rule("C16-R5", "accounting: bytes are added only under a successful capacity check and for the amount recorded in the entry; refusals happen before any state change (shared with C18-R4/R5)")
    ctx.rule("C16-R6", "'absent' is decided only by the cache's not-found signal: every handler around a cache read that does not re-raise catches FileNotFoundError only; a table handed out by the table facade's get does not share the cached frame (copied on construction or at the call)")
    ctx.trust("pickle.dump/pickle.load and DataFrame.to_pickle/pd.read_pickle are inverse pairs")

    getf = repo.fn(f"{FCM}:FileCache.get_file")
    # ---- R1
    raises = [n for n in walk_local(getf.node) if isinstance(n, ast.Raise) and n.exc is not None and "FileNotFoundError" in src(n.exc)]
    ctx.instance("C16-R1", getf.fq)
    ctx.ob("C16-R1", getf.fq, "a missing file is reported by raising FileNotFoundError before any cache state is touched", len(raises) == 1, node=getf.node, construct="FileNotFoundError raise site")
    facades = [f for f in repo.all_funcs((KVS,)) if f.cls and f.name == "get" and f.parent is None]
    ctx.floor("C16-R1", "dict-facade get methods", len(facades), 2)
    cg.build()
    for f in facades:
        ctx.instance("C16-R1", f.fq)
        reach = cg.reachable([f], kinds=("call",))
        if getf.fq not in reach:
            ctx.ob("C16-R1", f.fq, "the facade get reaches the cache's get_file", False, node=f.node, construct="facade get reaches the cache")
            continue
        # the path from f to get_file: find the call in f (or in a callee) and a handler on the way
        handled, where = _fnf_handled(cg, repo, f, getf, set())
        ctx.ob("C16-R1", f.fq, "FileNotFoundError from the cache is caught on the way and turned into the undefined marker / None", handled, node=f.node,
               construct="missing key handled as undefined", msg=f"{f.cls}.get lets FileNotFoundError escape for a key that was never set: `store?\"nokey\"` raises instead of yielding :undefined")
        # and the facade returns KLONG_UNDEFINED on that path
        from ..flow import return_alts
        rets = [src(v) for _facts, v, _r in return_alts(f.node) if v is not None]
        ctx.ob("C16-R1", f.fq, "the facade can return the undefined marker", any("KLONG_UNDEFINED" in r for r in rets), node=f.node, construct="facade returns KLONG_UNDEFINED")

    # ---- R6
    n_h = 0
    for f in repo.all_funcs(("db/file_cache", "db/df_cache", KVS)):
        for tr in [n for n in walk_local(f.node) if isinstance(n, ast.Try)]:
            reads = [c for s in tr.body for c in calls_in(s) if any(g.fq == getf.fq or getf.fq in cg.reachable([g], kinds=("call",)) for g in cg.resolve_call(f, c))]
            if not reads:
                continue
            for h in tr.handlers:
                if any(isinstance(n, ast.Raise) for n in ast.walk(h)):
                    continue
                n_h += 1
                ctx.instance("C16-R6", f.fq, f"handler {src(h.type) if h.type is not None else 'bare'}")
                names = set(handler_names(h)) if h.type is not None else {"BaseException"}
                ok = names <= {"FileNotFoundError"}
                ctx.ob("C16-R6", f.fq, "the handler that turns a failed cache read into 'nothing stored' catches FileNotFoundError only", ok, node=h,
                       construct=f"'absent' decided on {sorted(names)}",
                       msg=f"{f.name} treats {sorted(names)} from the cache read as 'no value stored': a MemoryError (value larger than this store's limit), a decode error or an I/O error then reads as :undefined or, on the merge path, makes the next set replace what is stored")
    ctx.floor("C16-R6", "swallowing handlers around cache reads", n_h, 2)
    tget = next((f for f in facades if any(callee_name(c) == "Table" for c in calls_in(f.node))), None)
    if tget is None:
        raise AnalysisError("table facade get (constructing Table) not found")
    ctx.instance("C16-R6", tget.fq, "fresh frame")
    tinit = repo.fn("db/sys_fn_db:Table.__init__")
    dparam = [p for p in tinit.params() if p != "self"][0]
    copies_in_init = False
    for n in walk_local(tinit.node):
        if isinstance(n, ast.Assign) and any((dotted(t) or "").startswith("self.") for t in n.targets) and isinstance(n.value, (ast.Call, ast.Name, ast.Attribute)):
            conds = [(e, pol) for e, pol in atoms_at(n, tinit.node) if pol and isinstance(e, ast.Call) and callee_name(e) == "isinstance" and "DataFrame" in src(e.args[1])]
            if conds and dparam in {x.id for x in ast.walk(n.value) if isinstance(x, ast.Name)}:
                v = n.value
                if isinstance(v, ast.Call) and isinstance(v.func, ast.Attribute) and v.func.attr in ("copy", "deepcopy") and dotted(v.func.value) == dparam:
                    copies_in_init = True
                elif isinstance(v, ast.Call) and callee_name(v) == "DataFrame" and any(k.arg == "copy" and isinstance(k.value, ast.Constant) and k.value.value is True for k in v.keywords):
                    copies_in_init = True
    for c in [c for c in calls_in(tget.node) if callee_name(c) == "Table"]:
        a = c.args[0] if c.args else None
        at_call = isinstance(a, ast.Call) and isinstance(a.func, ast.Attribute) and a.func.attr in ("copy", "deepcopy")
        ctx.ob("C16-R6", tget.fq, "the table returned by get owns a copy of the cached frame", copies_in_init or at_call, node=c, construct="table shares the cached frame",
               msg="the table returned by the table store's get is built on the cached frame itself: adding a column / indexing / inserting into the fetched table silently rewrites the cache entry, so later gets return data that was never set")

    # ---- R2
    wr = repo.fn(f"{FCM}:FileCache._write_file")
    ld = repo.fn(f"{FCM}:FileCache._load_file")
    exprs = {}
    for f, mode in ((wr, "w"), (ld, "r")):
        opens = [c for c in calls_in(f.node) if callee_name(c) == "open" and isinstance(c.func, ast.Name)]
        ctx.instance("C16-R2", f.fq)
        ok = len(opens) == 1
        if ok:
            e = resolve_single_assign(opens[0].args[0], f.node) if isinstance(opens[0].args[0], ast.Name) else opens[0].args[0]
            exprs[f.name] = _norm_params(src(e), f)
            m = opens[0].args[1].value if len(opens[0].args) > 1 and isinstance(opens[0].args[1], ast.Constant) else "r"
            ok = (mode in m) and "b" in m
        ctx.ob("C16-R2", f.fq, f"one binary open in mode '{mode}b'", ok, node=f.node, construct=f"{f.name} open mode")
    probe = [c for c in calls_in(getf.node) if dotted(c.func) in ("os.path.exists", "os.path.isfile")]
    if probe:
        e = resolve_single_assign(probe[0].args[0], getf.node) if isinstance(probe[0].args[0], ast.Name) else probe[0].args[0]
        exprs["get_file"] = _norm_params(src(e), getf)
    ctx.instance("C16-R2", getf.fq)
    vals = set(exprs.values())
    ctx.ob("C16-R2", FCM, f"writer, loader and existence probe agree on the path expression ({sorted(vals)})", len(exprs) == 3 and len(vals) == 1 and all(re.fullmatch(r"os\.path\.join\(self\.\w+, \$1\)", v) for v in vals),
           construct="path expression agreement", msg=f"the value file is written at {exprs.get('_write_file')} but read at {exprs.get('_load_file')} / probed at {exprs.get('get_file')}")
    # facades map the key through the same function in both directions
    k2p = repo.fn("db/helpers:key_to_file_path")
    for cls in sorted({f.cls for f in facades}):
        sides = {}
        for f in repo.all_funcs((KVS,)):
            if f.cls == cls and f.name in ("get", "set"):
                cs = [c for c in calls_in(f.node) if isinstance(c.func, ast.Attribute) and dotted(c.func.value) == "self.cache"]
                for c in cs:
                    a0 = c.args[0] if c.args else None
                    if isinstance(a0, ast.Name):
                        # a local holding the mapped key: every binding of it must be the same expression
                        from ..common import name_defs
                        ds = name_defs(f.node, a0.id)
                        if ds and len({src(v) for v, _st in ds}) == 1:
                            a0 = ds[0][0]
                    sides[f.name] = src(a0.func) if isinstance(a0, ast.Call) and a0.args and isinstance(a0.args[0], ast.Name) and a0.args[0].id == f.params()[1] else f"?{src(a0) if a0 is not None else ''}"
        ctx.instance("C16-R2", f"{KVS}:{cls}")
        ctx.ob("C16-R2", f"{KVS}:{cls}", f"get and set map the key through the same function ({sides})", len(sides) == 2 and len(set(sides.values())) == 1 and set(sides.values()) == {k2p.name},
               construct=f"{cls} key mapping agreement", msg=f"{cls}.set and {cls}.get derive the file name differently: {sides}")
    check_key_mapping(ctx, repo, "C16-R2")

    # ---- R3 codecs
    helpers = repo.module("db/helpers")
    pairs = {"serialize_obj": "deserialize_obj", "serialize_df": "deserialize_df", "serialize_gzip_df": "deserialize_gzip_df"}
    lib = {"serialize_obj": ("pickle.dump", "pickle.load"), "serialize_df": ("to_pickle", "read_pickle"), "serialize_gzip_df": ("to_pickle", "read_pickle")}
    used = []
    kv_set, kv_get = repo.fn(f"{KVS}:KeyValueStorage.set"), repo.fn(f"{KVS}:KeyValueStorage.get")
    enc = [callee_name(c) for c in calls_in(kv_set.node) if (callee_name(c) or "").startswith("serialize")]
    dec = [callee_name(c) for c in calls_in(kv_get.node) if (callee_name(c) or "").startswith("deserialize")]
    ctx.instance("C16-R3", f"{KVS}:KeyValueStorage")
    ctx.ob("C16-R3", f"{KVS}:KeyValueStorage", f"set encodes with {enc} and get decodes with {dec}: a matching pair", len(enc) == 1 and len(dec) == 1 and pairs.get(enc[0]) == dec[0],
           construct="key-value codec pair", msg=f"values are written with {enc} but read with {dec}")
    used += enc
    dfc_upd, dfc_proc = repo.fn("db/df_cache:PandasDataFrameCache.update"), repo.fn("db/df_cache:PandasDataFrameCache.process_contents")
    enc = [callee_name(c) for c in calls_in(dfc_upd.node) if (callee_name(c) or "").startswith("serialize")]
    dec = [callee_name(c) for c in calls_in(dfc_proc.node) if (callee_name(c) or "").startswith("deserialize")]
    ctx.instance("C16-R3", "db/df_cache:PandasDataFrameCache")
    ctx.ob("C16-R3", "db/df_cache:PandasDataFrameCache", f"update encodes with {enc} and process_contents decodes with {dec}: a matching pair", len(enc) == 1 and len(dec) == 1 and pairs.get(enc[0]) == dec[0],
           construct="table codec pair", msg=f"tables are written with {enc} but read with {dec}")
    used += enc
    for e in used:
        fe, fd = repo.fn(f"db/helpers:{e}"), repo.fn(f"db/helpers:{pairs[e]}")
        we, wd = lib[e]
        ok = any(we in (dotted(c.func) or callee_name(c) or "") for c in calls_in(fe.node)) and any(wd in (dotted(c.func) or callee_name(c) or "") for c in calls_in(fd.node))
        gz_e = any("gzip" in (dotted(c.func) or "") for c in calls_in(fe.node))
        gz_d = any("gzip" in (dotted(c.func) or "") for c in calls_in(fd.node))
        ctx.ob("C16-R3", fe.fq, f"{e}/{pairs[e]} use the inverse library pair {we}/{wd} with the same compression", ok and gz_e == gz_d, node=fe.node, construct=f"{e} library pair")
    # the cache stores the bytes it is given and hands back what process_contents makes of the file's bytes
    ctx.instance("C16-R3", wr.fq)
    w = [c for c in calls_in(wr.node) if isinstance(c.func, ast.Attribute) and c.func.attr == "write"]
    ok = len(w) == 1 and isinstance(w[0].args[0], ast.Name) and w[0].args[0].id in wr.params()
    ctx.ob("C16-R3", wr.fq, "the bytes written are the contents parameter, unmodified", ok, node=wr.node, construct="writes the given bytes")
    pcw = [c for c in calls_in(wr.node) if isinstance(c.func, ast.Attribute) and c.func.attr == "process_contents"]
    ok = len(pcw) == 1 and isinstance(pcw[0].args[0], ast.Name) and pcw[0].args[0].id == (w[0].args[0].id if w else None)
    ctx.ob("C16-R3", wr.fq, "the cached contents are process_contents of the very bytes written", ok, node=wr.node, construct="cache holds what was written")
    pcl = [c for c in calls_in(ld.node) if isinstance(c.func, ast.Attribute) and c.func.attr == "process_contents"]
    ok = len(pcl) == 1 and isinstance(pcl[0].args[0], ast.Call) and isinstance(pcl[0].args[0].func, ast.Attribute) and pcl[0].args[0].func.attr == "read" and not pcl[0].args[0].args
    ctx.ob("C16-R3", ld.fq, "the loader processes the whole file (read() without a size)", ok, node=ld.node, construct="loader reads the whole file")

    # ---- R4
    dels = []
    for f in repo.all_funcs(DB):
        for c in calls_in(f.node):
            d = dotted(c.func) or ""
            if d in ("os.remove", "os.unlink", "os.rename", "os.replace", "os.truncate", "os.rmdir", "shutil.rmtree", "shutil.move") or callee_name(c) in ("unlink", "rmtree"):
                dels.append((f, c))
            if callee_name(c) == "open" and isinstance(c.func, ast.Name) and f.fq != wr.fq and len(c.args) > 1 and isinstance(c.args[1], ast.Constant) and any(ch in c.args[1].value for ch in "wax+") \
                    and f.module.name in ("db/file_cache", "db/df_cache", "db/sys_fn_kvs"):
                dels.append((f, c))
    ctx.instance("C16-R4", "klongpy/db", "who may delete")
    for f, c in dels:
        ctx.ob("C16-R4", f.fq, "no file removal / rename / extra truncating open in the store", False, node=c, construct=f"file-system mutation {src(c.func)}",
               msg=f"{f.name} removes, renames or truncates a file: eviction/unloading must only drop the in-memory copy, the value on disk has to stay readable")
    ctx.ob("C16-R4", "klongpy/db", f"{len(dels)} file deletions/renames in klongpy/db", not dels, construct="no deletions in klongpy/db")
    ctrl = any(dotted(c.func) == "os.remove" for f in repo.all_funcs(("sys_fn",)) for c in calls_in(f.node))
    ctx.control("C16-R4", "the deletion pattern matches os.remove in sys_fn.py (.df)", ctrl)

    # ---- R5 shared accounting rules
    cfuncs = [f for f in repo.all_funcs((FCM, "db/df_cache")) if f.cls and f.parent is None]
    locks = c18.lock_fields(repo, cg, cfuncs)
    base_lock = next(iter(locks.get("FileCache", [])), None)
    if base_lock is None:
        raise AnalysisError("FileCache owns no lock")
    assume = {f.fq: c18.asserts_locked(f) for f in cfuncs}
    sub = _Relabel(ctx, {"C18-R4": "C16-R5", "C18-R5": "C16-R5"})
    c18._accounting(sub, repo, cg, cfuncs, base_lock, assume, concurrency=False)
    c18._refusal(sub, repo, base_lock)
    # recover_memory: evicts only non-writing entries and stops when the claim fits
    rm = repo.fn(f"{FCM}:FileCache.recover_memory")
    ctx.instance("C16-R5", rm.fq)
    rets = [r for r in walk_local(rm.node) if isinstance(r, ast.Return)]
    def _le(e, pol=True):
        """(small side, large side) if e asserts small <= large: A <= B, B >= A, not A > B, not B < A"""
        if isinstance(e, ast.UnaryOp) and isinstance(e.op, ast.Not):
            return _le(e.operand, not pol)
        if isinstance(e, ast.Compare) and len(e.ops) == 1:
            a, b, op = e.left, e.comparators[0], e.ops[0]
            if pol and isinstance(op, ast.LtE):
                return a, b
            if pol and isinstance(op, ast.GtE):
                return b, a
            if not pol and isinstance(op, ast.Gt):
                return a, b
            if not pol and isinstance(op, ast.Lt):
                return b, a
        return None
    le = _le(rets[0].value) if len(rets) == 1 and rets[0].value is not None else None
    cparam = [p for p in rm.params() if p != "self"][0] if len(rm.params()) > 1 else "claim"
    ok = le is not None and "max_memory" in src(le[1]) and cparam in {n.id for n in ast.walk(le[0]) if isinstance(n, ast.Name)} and "current_memory_usage" in src(le[0])
    ctx.ob("C16-R5", rm.fq, "the capacity check result is `usage + claim <= max_memory`", ok, node=rm.node, construct="capacity predicate")
    pre = [n for n in rm.node.body if isinstance(n, ast.Assert)]
    ok = any("claim" in src(a.test) and "max_memory" in src(a.test) for a in pre)
    ctx.ob("C16-R5", rm.fq, "a claim above the limit is rejected up front", ok, node=rm.node, construct="claim <= max asserted")


def check_key_mapping(ctx, repo, rid):
    """the key -> file path function is injective: identity or a listed lossless encoding (shared with C17-R4)"""
    k2p = repo.fn("db/helpers:key_to_file_path")
    # injectivity of the key -> path function
    ctx.instance(rid, k2p.fq)
    rets = [r for r in walk_local(k2p.node) if isinstance(r, ast.Return)]
    p0 = k2p.params()[0]
    verdict = True
    unknown = None
    stores = [n for n in walk_local(k2p.node) if isinstance(n, ast.Name) and isinstance(n.ctx, ast.Store)]
    for n in walk_local(k2p.node):
        if isinstance(n, ast.Call):
            nm = callee_name(n)
            if nm in LOSSY:
                verdict = False
            elif nm not in INJECTIVE:
                unknown = nm
        if isinstance(n, ast.Subscript):
            verdict = False
    if verdict and unknown:
        ctx.error(f"{rid}: cannot decide whether key_to_file_path is injective (calls {unknown})")
    else:
        ctx.ob(rid, k2p.fq, "the key -> file path mapping is injective (identity or a listed lossless encoding)", verdict and bool(rets), node=k2p.node,
               construct="key to path mapping injective", msg="the key -> file name mapping applies a lossy transformation: two different keys share one value file, so a set of one key replaces the other's value")



def _norm_params(text, f):
    """replace the function's own parameter names by positional placeholders ($1 = first parameter after self)"""
    ps = [p for p in f.params() if p != "self"]
    for k, p in enumerate(ps, 1):
        text = re.sub(rf"\b{re.escape(p)}\b", f"${k}", text)
    return text


class _Relabel:
    """forwards to a Ctx, renaming rule ids (the accounting rules are shared between C16 and C18)"""

    def __init__(self, ctx, mapping):
        self._c, self._m = ctx, mapping

    def __getattr__(self, k):
        return getattr(self._c, k)

    def instance(self, rid, *a, **k):
        return self._c.instance(self._m.get(rid, rid), *a, **k)

    def ob(self, rid, *a, **k):
        return self._c.ob(self._m.get(rid, rid), *a, **k)

    def floor(self, rid, *a, **k):
        return self._c.floor(self._m.get(rid, rid), *a, **k)


def _fnf_handled(cg, repo, f, target, seen):
    """is FileNotFoundError raised by `target` caught on every call path from f? returns (handled, where)"""
    if f.fq in seen:
        return True, ""
    seen.add(f.fq)
    ok_all, found = True, False
    for c in calls_in(f.node):
        callees = cg.resolve_call(f, c)
        for g in callees:
            if g.fq == target.fq or target.fq in cg.reachable([g], kinds=("call",)):
                found = True
                # is this call inside a try with a FileNotFoundError / OSError / Exception handler that does not re-raise?
                caught = False
                for p in ancestors(c, f.node):
                    if isinstance(p, ast.Try) and any(c in list(ast.walk(s)) for s in p.body):
                        for h in p.handlers:
                            names = src(h.type) if h.type is not None else "BaseException"
                            if any(x in names for x in ("FileNotFoundError", "OSError", "IOError", "Exception")) and not any(isinstance(n, ast.Raise) for n in ast.walk(h)):
                                caught = True
                if caught:
                    continue
                if g.fq == target.fq:
                    ok_all = False
                else:
                    sub, _ = _fnf_handled(cg, repo, g, target, seen)
                    ok_all = ok_all and sub
    return (ok_all and found), f.fq


# functions whose mechanical mutants are swept in the thorough tier (coverage evidence, see sa/mutate.py)
MUTATION_SCOPE = ['db/file_cache:FileCache._load_file',
                  'db/file_cache:FileCache._write_file',
                  'db/file_cache:FileCache.update_file_futures_and_memory',
                  'db/file_cache:FileCache.update_file',
                  'db/file_cache:FileCache._unload_file',
                  'db/file_cache:FileCache.recover_memory',
                  'db/file_cache:FileCache.get_file',
                  'db/sys_fn_kvs:KeyValueStorage.get',
                  'db/sys_fn_kvs:KeyValueStorage.set',
                  'db/sys_fn_kvs:TableStorage.get',
                  'db/sys_fn_kvs:TableStorage.set',
                  'db/df_cache:PandasDataFrameCache.get_dataframe',
                  'db/df_cache:PandasDataFrameCache.process_contents',
                  'db/helpers:key_to_file_path',
                  'db/helpers:serialize_obj',
                  'db/helpers:deserialize_obj']

SEEDS = [
    Seed("update-absent-on-any-exception", "fault", "db/df_cache", "            except FileNotFoundError:\n                df = new_df", "            except Exception:\n                df = new_df", rule="C16-R6"),
    Seed("kvs-get-absent-on-oserror", "fault", KVS, "        except FileNotFoundError:\n            return KLONG_UNDEFINED", "        except (OSError, EOFError):\n            return KLONG_UNDEFINED", rule="C16-R6"),
    Seed("table-shares-frame", "fault", "db/sys_fn_db", "            self._df = data.copy()", "            self._df = data", rule="C16-R6"),
    Seed("refactor-copy-at-call", "refactor", "db/sys_fn_db", "            self._df = data.copy()", "            self._df = data", more=[(KVS, "KLONG_UNDEFINED if df is None else Table(df)", "KLONG_UNDEFINED if df is None else Table(df.copy())")]),
    Seed("kvs-get-raises", "fault", KVS, "        try:\n            return deserialize_obj(self.cache.get_file(key_to_file_path(x)))\n        except FileNotFoundError:\n            return KLONG_UNDEFINED",
         "        return deserialize_obj(self.cache.get_file(key_to_file_path(x)))", rule="C16-R1"),
    Seed("tables-get-raises", "fault", "db/df_cache", "        try:\n            df = self.get_file(file_name)\n        except FileNotFoundError:\n            return pd.DataFrame() if default_empty else None\n        if range_start is None:",
         "        df = self.get_file(file_name)\n        if range_start is None:", rule="C16-R1"),
    Seed("load-other-path", "fault", FCM, "        with open(os.path.join(self.root_path, file_name), 'rb') as file:", "        with open(os.path.join(self.root_path, os.path.basename(file_name)), 'rb') as file:", rule="C16-R2"),
    Seed("sanitised-key", "fault", "db/helpers", "def key_to_file_path(key):\n    return key", "def key_to_file_path(key):\n    return key.replace(':', '_')", rule="C16-R2"),
    Seed("set-maps-key-differently", "fault", KVS, "        self.cache.update_file(key_to_file_path(x), serialize_obj(y), use_fsync=True)", "        self.cache.update_file(key_to_file_path(x.strip()), serialize_obj(y), use_fsync=True)", rule="C16-R2"),
    Seed("codec-mismatch", "fault", KVS, "            return deserialize_obj(self.cache.get_file(key_to_file_path(x)))", "            return deserialize_df(self.cache.get_file(key_to_file_path(x)))", rule="C16-R3"),
    Seed("evict-deletes-file", "fault", FCM, "        if info is not None:\n            self.current_memory_usage -= info[1]\n            del self.file_futures[file_name]",
         "        if info is not None:\n            self.current_memory_usage -= info[1]\n            del self.file_futures[file_name]\n            os.remove(os.path.join(self.root_path, file_name))", rule="C16-R4"),
    Seed("entry-size-from-claim", "fault", FCM, "                self.file_futures[file_name] = (False, memory_usage, info[-1])", "                self.file_futures[file_name] = (False, info[1], info[-1])", rule="C16-R5"),
    Seed("oversize-after-unload", "fault", FCM, "        claim = len(new_file_contents)\n        if claim > self.max_memory:\n            raise MemoryError(f\"requested file update larger than max_memory: {file_name} {claim} {self.max_memory}\")\n        with self.file_futures_lock:\n            info = self.file_futures.get(file_name)\n            if info is None or not info[0]:\n                self._unload_file(file_name)\n",
         "        with self.file_futures_lock:\n            info = self.file_futures.get(file_name)\n            if info is None or not info[0]:\n                self._unload_file(file_name)\n                claim = len(new_file_contents)\n                if claim > self.max_memory:\n                    raise MemoryError(f\"requested file update larger than max_memory: {file_name} {claim} {self.max_memory}\")\n", rule="C16-R5"),
    Seed("capacity-predicate-strict", "fault", FCM, "        return (self.current_memory_usage + claim) <= self.max_memory", "        return self.current_memory_usage <= self.max_memory", rule="C16-R5"),
    Seed("refactor-rename-param", "refactor", FCM, "    def _load_file(self, file_name):", "    def _load_file(self, name):",
         more=[("        with open(os.path.join(self.root_path, file_name), 'rb') as file:\n            contents, memory_usage = self.process_contents(file.read())\n        self.update_file_futures_and_memory(file_name, memory_usage=memory_usage)",
                "        with open(os.path.join(self.root_path, name), 'rb') as file:\n            contents, memory_usage = self.process_contents(file.read())\n        self.update_file_futures_and_memory(name, memory_usage=memory_usage)")]),
    Seed("refactor-path-var", "refactor", FCM, "        with open(os.path.join(self.root_path, file_name), 'rb') as file:", "        path = os.path.join(self.root_path, file_name)\n        with open(path, 'rb') as file:"),
    Seed("refactor-kvs-get-temp", "refactor", KVS, "            return deserialize_obj(self.cache.get_file(key_to_file_path(x)))", "            raw = self.cache.get_file(key_to_file_path(x))\n            return deserialize_obj(raw)"),
]
