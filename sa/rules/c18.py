"""C18 — the file cache is linearizable under concurrent get, update and unload.

Structural clauses decided: lock discipline (every access to a lock-guarded field happens with the lock
held), no blocking while the lock is held, acyclic lock order, the byte total changes only together with
the entry it accounts for (and an entry sits on the eviction heap only when its bytes are counted), an
entry's writing flag is cleared only after its disk I/O finished, and a refused update writes nothing.
Linearizability itself (an ordering of histories) is NOT decided.
"""
import ast

from ..model import AnalysisError, src, callee_name, dotted, walk_local, calls_in, FUNC
from ..flow import Sem, atoms_at, path_conditions, split_conj
from ..callgraph import CallGraph
from ..common import ancestors, resolve_single_assign, in_loop
from ..selftest import Seed

META = {
    "technique": "lock-set (guarded-by) analysis, no-blocking-under-lock, lock-order graph, accounting pairing per critical section, ordering typestate of the worker routines, per-file lock identity (lookup-or-create under the cache lock)",
    "level_text": "Static proof over all access sites and critical sections of the cache classes: guarded-by discipline, no blocking call or second lock under the lock, acyclic lock order, paired accounting, completion-after-I/O. These are necessary conditions of linearizability that hold for every schedule, where the thread tests only sample schedules; the ordering of histories itself is not decided.",
    "level_note": "decides the structural clause below from source; does not decide the behaviour. Trusted: `with lock:` holds the lock for its body; functions asserting lock.locked() are only correct when their callers hold it (checked at every call site); executor.submit does not block; Future.result() blocks.",
    "explanation": (
        "Static analysis of klongpy/db/file_cache.py and df_cache.py: lock-owning classes and the fields written under the lock are discovered; every "
        "access to such a field outside __init__ must be lexically inside `with self.<lock>` or in a function that asserts the lock is held, all of whose "
        "call sites are themselves under the lock; inside those contexts blocking calls are forbidden; nested acquisitions give a lock-order graph that must "
        "be acyclic; in each critical section a store of a non-writing entry comes with `total += <the same amount>`, a subtraction is guarded by a "
        "non-writing test, heap insertions happen only for entries whose bytes are counted; the worker routines call the completion routine only "
        "after their file I/O; the refusing arms of update/get mutate nothing."),
    "assumptions": ["fields are accessed as self.<field> inside the cache classes (no aliasing of the dict/heap into locals across critical sections)"],
}

FC = "db/file_cache"
DC = "db/df_cache"
BLOCKING = {"result", "sleep", "acquire", "join", "shutdown", "wait", "read", "write", "fsync", "makedirs"}


def lock_fields(repo, cg, cls_fi_list):
    """-> {class name: set(lock attr)} from `self.X = Lock()` in __init__"""
    out = {}
    for f in cls_fi_list:
        if f.name == "__init__":
            for n in walk_local(f.node):
                if isinstance(n, ast.Assign) and isinstance(n.value, ast.Call) and callee_name(n.value) in ("Lock", "RLock"):
                    for t in n.targets:
                        d = dotted(t)
                        if d and d.startswith("self."):
                            out.setdefault(f.cls, set()).add(d[5:])
    return out


def held_locks(node, fnode):
    """lock attributes held lexically at node (enclosing `with self.X:`)"""
    out = set()
    for p in ancestors(node, fnode):
        if isinstance(p, (ast.With, ast.AsyncWith)):
            for it in p.items:
                d = dotted(it.context_expr)
                if d and d.startswith("self."):
                    out.add(d[5:])
                elif isinstance(it.context_expr, ast.Name):
                    out.add("<" + it.context_expr.id + ">")
    return out


def asserts_locked(f):
    """locks the function assumes its CALLER holds: `assert self.<lock>.locked()` outside any `with self.<lock>` of its own"""
    out = set()
    for n in walk_local(f.node):
        if isinstance(n, ast.Assert):
            for c in ast.walk(n.test):
                if isinstance(c, ast.Call) and isinstance(c.func, ast.Attribute) and c.func.attr == "locked":
                    d = dotted(c.func.value)
                    if d and d.startswith("self."):
                        own = any(isinstance(p, (ast.With, ast.AsyncWith)) and any(dotted(i.context_expr) == d for i in p.items) for p in ancestors(n, f.node))
                        if not own:
                            out.add(d[5:])
    return out


def writing_state(fnode, node, table="file_futures"):
    """'W' / 'N' / None: what the conditions that hold at `node` say about the writing flag (element 0) of a table entry:
    W = an entry exists and its write is in flight, N = no entry or no write in flight.  The entry may be a local bound from
    self.<table>.get(k) / self.<table>[k] (or a copy of it) or the subscript itself; conditions may be named by single-assignment locals."""
    names = set()
    for _ in range(3):
        for n in walk_local(fnode):
            if isinstance(n, ast.Assign) and isinstance(n.targets[0], ast.Name):
                v = n.value
                if (isinstance(v, ast.Call) and isinstance(v.func, ast.Attribute) and v.func.attr == "get" and dotted(v.func.value) == f"self.{table}") or \
                        (isinstance(v, ast.Subscript) and dotted(v.value) == f"self.{table}") or (isinstance(v, ast.Name) and v.id in names):
                    names.add(n.targets[0].id)

    def is_entry(e):
        return (isinstance(e, ast.Name) and e.id in names) or (isinstance(e, ast.Subscript) and dotted(e.value) == f"self.{table}")

    def is_flag(e):
        if isinstance(e, ast.Call) and callee_name(e) == "bool" and len(e.args) == 1:
            e = e.args[0]
        return isinstance(e, ast.Subscript) and is_entry(e.value) and isinstance(e.slice, ast.Constant) and e.slice.value == 0

    def none_cmp(e, op):
        return isinstance(e, ast.Compare) and len(e.ops) == 1 and is_entry(e.left) and isinstance(e.comparators[0], ast.Constant) and e.comparators[0].value is None and isinstance(e.ops[0], op)

    def pred(e, depth=3):
        if isinstance(e, ast.UnaryOp) and isinstance(e.op, ast.Not):
            return {"W": "N", "N": "W"}.get(pred(e.operand, depth))
        if is_flag(e):
            return "W"
        if none_cmp(e, ast.Is):
            return "N"
        if isinstance(e, ast.BoolOp) and isinstance(e.op, ast.And) and any(is_flag(v) for v in e.values) and all(is_flag(v) or none_cmp(v, ast.IsNot) for v in e.values):
            return "W"
        if isinstance(e, ast.BoolOp) and isinstance(e.op, ast.Or) and all(pred(v, depth) == "N" for v in e.values):
            return "N"
        if isinstance(e, ast.Name) and depth:
            d = [a.value for a in walk_local(fnode) if isinstance(a, ast.Assign) and any(isinstance(t, ast.Name) and t.id == e.id for t in a.targets)]
            if len(d) == 1:
                return pred(d[0], depth - 1)
        return None
    st_ = None
    for t, pol in path_conditions(node, fnode):
        w = pred(t)
        if w is not None:
            st_ = w if pol else {"W": "N", "N": "W"}[w]
            continue
        for e, p_ in split_conj(t, pol):
            w = pred(e)
            if w == "W" or (w == "N" and p_):
                st_ = w if p_ else "N"
            elif w == "N" and not p_ and none_cmp(e, ast.Is):
                pass            # `entry is not None` alone says nothing about the flag
    return st_


def field_accesses(f, fields):
    out = []
    for n in walk_local(f.node):
        if isinstance(n, ast.Attribute) and isinstance(n.value, ast.Name) and n.value.id == "self" and n.attr in fields:
            write = isinstance(n.ctx, (ast.Store, ast.Del))
            p = getattr(n, "_parent", None)
            if isinstance(p, ast.Subscript) and p.value is n and isinstance(p.ctx, (ast.Store, ast.Del)):
                write = True
            if isinstance(p, ast.Attribute) and isinstance(getattr(p, "_parent", None), ast.Call) and p._parent.func is p and p.attr in (
                    "append", "pop", "clear", "update", "setdefault", "remove", "extend", "insert", "popitem"):
                write = True
            if isinstance(p, ast.AugAssign) and p.target is n:
                write = True
            if isinstance(p, ast.Call) and callee_name(p) in ("heappush", "heappop", "heapify") and p.args and p.args[0] is n:
                write = True
            out.append((n, write))
    return out


def check(ctx):
    repo = ctx.repo
    cg = CallGraph(repo)
    ctx.rule("C18-R1", "guarded-by: every access outside __init__ to a field that is written under the cache lock happens with the lock held (inside `with self.<lock>`, or in a function asserting .locked() whose every call site holds it)")
    ctx.rule("C18-R2", "no blocking under the lock: no .result()/sleep/file I/O/second acquisition/executor shutdown inside a lock context (submit is allowed)")
    ctx.rule("C18-R3", "the lock-order graph over the cache lock and the per-file append locks is acyclic (one reviewed self-edge)")
    ctx.rule("C18-R4", "accounting pairing: (A1) a stored non-writing entry comes with `total += <the same amount>` in the same critical section; (A2) `total -= entry bytes` only for entries known non-writing; (A3) removal and subtraction together; (A4) an entry is pushed on the eviction heap only when its bytes are counted")
    ctx.rule("C18-R5", "the refusing arms (oversized claim, write already in flight) of update/get mutate nothing")
    ctx.rule("C18-R6", "the worker routines clear the writing flag / account the bytes only after their file I/O has finished")
    ctx.trust("threading.Lock is not reentrant", "executor.submit does not block; Future.result() does")

    funcs = [f for f in repo.all_funcs((FC, DC)) if f.cls and f.parent is None]
    locks = lock_fields(repo, cg, funcs)
    base_lock = next(iter(locks.get("FileCache", [])), None)
    if base_lock is None:
        raise AnalysisError("FileCache owns no lock created in __init__")
    # classes sharing the lock (subclasses)
    cache_classes = {"FileCache"} | cg.all_subclasses("FileCache")
    cfuncs = [f for f in funcs if f.cls in cache_classes]
    # ---- guarded fields: written outside __init__ while the lock is held
    all_attrs = set()
    for f in cfuncs:
        for n in walk_local(f.node):
            if isinstance(n, ast.Attribute) and isinstance(n.value, ast.Name) and n.value.id == "self":
                all_attrs.add(n.attr)
    assume = {f.fq: asserts_locked(f) for f in cfuncs}
    guarded = set()
    for f in cfuncs:
        if f.name == "__init__":
            continue
        for n, write in field_accesses(f, all_attrs):
            if write and (base_lock in held_locks(n, f.node) or base_lock in assume[f.fq]):
                guarded.add(n.attr)
    guarded.discard(base_lock)
    ctx.note("lock", base_lock)
    ctx.note("guarded_fields", sorted(guarded))
    ctx.floor("C18-R1", "fields guarded by the cache lock", len(guarded), 4)
    n_acc = 0
    for f in cfuncs:
        if f.name == "__init__":
            continue
        for n, write in field_accesses(f, guarded):
            n_acc += 1
            ctx.instance("C18-R1", f.fq, src(getattr(n, "_parent", n))[:60])
            ok = base_lock in held_locks(n, f.node) or base_lock in assume[f.fq]
            ctx.ob("C18-R1", f.fq, f"{'write' if write else 'read'} of self.{n.attr} with {base_lock} held", ok, node=n, construct=f"{'write' if write else 'read'} of self.{n.attr} outside the lock",
                   msg=f"self.{n.attr} is {'written' if write else 'read'} in {f.name} without holding {base_lock}, although other code updates it under that lock: check-then-act / torn state under concurrent calls")
    ctx.floor("C18-R1", "accesses to guarded fields", n_acc, 20)
    # call sites of lock-assuming functions
    n_cs = 0
    for f in cfuncs:
        for c in calls_in(f.node):
            if isinstance(c.func, ast.Attribute) and dotted(c.func.value) == "self":
                for g in cg.resolve_call(f, c):
                    if base_lock in assume.get(g.fq, ()):
                        n_cs += 1
                        ok = base_lock in held_locks(c, f.node) or base_lock in assume[f.fq]
                        ctx.ob("C18-R1", f.fq, f"call of lock-assuming {g.name} with {base_lock} held", ok, node=c, construct=f"call of {g.name} without the lock",
                               msg=f"{g.name} asserts that {base_lock} is held, but {f.name} calls it without holding it")
    ctx.floor("C18-R1", "call sites of lock-assuming functions", n_cs, 5)

    # ---- R2 no blocking under the lock
    n_ctx = 0
    for f in cfuncs:
        for n in walk_local(f.node):
            if not isinstance(n, ast.Call):
                continue
            under = base_lock in held_locks(n, f.node) or base_lock in assume[f.fq]
            if not under:
                continue
            n_ctx += 1
            nm = callee_name(n)
            blocking = (isinstance(n.func, ast.Attribute) and nm in BLOCKING and dotted(n.func.value) not in ("self.file_access_times",)) or nm in ("open", "sleep")
            # a call that (transitively, one level) blocks
            for g in cg.resolve_call(f, n):
                if g.cls in cache_classes and base_lock not in assume.get(g.fq, ()) and g.name not in ("process_contents",):
                    if any(isinstance(c.func, ast.Attribute) and callee_name(c) == "result" for c in calls_in(g.node)) or any(
                            isinstance(w, ast.With) and any(dotted(i.context_expr) == f"self.{base_lock}" for i in w.items) for w in walk_local(g.node)):
                        blocking = True
            ctx.ob("C18-R2", f.fq, f"`{src(n)[:50]}` does not block while {base_lock} is held", not blocking, node=n, construct=f"blocking call under the lock: {nm}",
                   msg=f"{f.name} calls {nm} while holding {base_lock}: the worker tasks need that lock to complete, so the cache can deadlock / stall all clients") if blocking else None
    ctx.instance("C18-R2", FC, f"{n_ctx} calls inside lock contexts")
    ctx.ob("C18-R2", FC, f"{n_ctx} calls inside lock contexts examined", True, construct="calls under the lock examined")
    ctx.floor("C18-R2", "calls inside lock contexts", n_ctx, 10)
    # nested with on another lock while holding the base lock
    for f in cfuncs:
        for w in walk_local(f.node):
            if isinstance(w, (ast.With, ast.AsyncWith)):
                held = held_locks(w, f.node)
                for it in w.items:
                    d = dotted(it.context_expr) or (isinstance(it.context_expr, ast.Name) and it.context_expr.id)
                    if base_lock in held and d and d != f"self.{base_lock}":
                        ctx.ob("C18-R2", f.fq, "no second lock is taken while the cache lock is held", False, node=w, construct=f"lock {d} taken under {base_lock}")

    # ---- R3 lock order
    edges = set()
    for f in cfuncs:
        for w in walk_local(f.node):
            if not isinstance(w, (ast.With, ast.AsyncWith)):
                continue
            for it in w.items:
                d = dotted(it.context_expr) or (it.context_expr.id if isinstance(it.context_expr, ast.Name) else None)
                if not d:
                    continue
                lk = base_lock if d == f"self.{base_lock}" else "per-file append lock" if isinstance(it.context_expr, ast.Name) else d
                # what is acquired inside the body (transitively through methods of the cache classes)
                seen, work = set(), []
                for s in w.body:
                    for c in walk_local(s):
                        if isinstance(c, ast.Call):
                            work += cg.resolve_call(f, c)
                        if isinstance(c, (ast.With,)) and c is not w:
                            for i2 in c.items:
                                d2 = dotted(i2.context_expr) or (i2.context_expr.id if isinstance(i2.context_expr, ast.Name) else None)
                                if d2:
                                    edges.add((lk, base_lock if d2 == f"self.{base_lock}" else "per-file append lock" if isinstance(i2.context_expr, ast.Name) else d2, f.fq))
                while work:
                    g = work.pop()
                    if g.fq in seen or g.cls not in cache_classes:
                        continue
                    seen.add(g.fq)
                    for w2 in walk_local(g.node):
                        if isinstance(w2, ast.With):
                            for i2 in w2.items:
                                d2 = dotted(i2.context_expr) or (i2.context_expr.id if isinstance(i2.context_expr, ast.Name) else None)
                                if d2:
                                    edges.add((lk, base_lock if d2 == f"self.{base_lock}" else "per-file append lock" if isinstance(i2.context_expr, ast.Name) else d2, f.fq + "->" + g.fq))
                    for c in calls_in(g.node):
                        work += cg.resolve_call(g, c)
    ctx.note("lock_order_edges", sorted({(a, b) for a, b, _w in edges}))
    ctx.instance("C18-R3", FC, f"{len(edges)} nested acquisitions")
    pairs = {(a, b) for a, b, _w in edges}
    REVIEWED = {("per-file append lock", "per-file append lock"): "PandasDataFrameCache.update retries itself under the per-file lock only when update_file reports a write already in flight; all table writers hold that same per-file lock and update_file returns only after the write finished, so the arm is unreachable"}
    for a, b in sorted(pairs):
        if a == b:
            ok = (a, b) in REVIEWED
            ctx.ob("C18-R3", FC, f"re-acquisition {a} -> {b} is the reviewed unreachable retry arm", ok, construct=f"lock self-edge {a}", msg=f"{a} is re-acquired while held (non-reentrant): deadlock")
        else:
            ctx.ob("C18-R3", FC, f"no reverse edge for {a} -> {b}", (b, a) not in pairs, construct=f"lock order {a} -> {b}", msg=f"both {a} -> {b} and {b} -> {a} occur: lock-order cycle")
    ctx.floor("C18-R3", "lock-order edges", len(pairs), 1)

    _accounting(ctx, repo, cg, cfuncs, base_lock, assume)
    # ---- R7 worker threads create directories concurrently: creation must be create-or-exists in one step
    ctx.rule("C18-R7", "worker routines create directories with os.makedirs(..., exist_ok=True): a separate existence test followed by a plain makedirs lets two concurrent updates under one new directory race (the loser raises FileExistsError and its entry stays 'writing' for good)")
    mk = [(f, c) for f in cfuncs for c in calls_in(f.node) if (dotted(c.func) or "").endswith(("os.makedirs", "os.mkdir")) or callee_name(c) in ("makedirs", "mkdir")]
    ctx.floor("C18-R7", "directory creations in the cache", len(mk), 1)
    for f, c in mk:
        ctx.instance("C18-R7", f.fq, src(c)[:60])
        ok = callee_name(c) == "makedirs" and any(k.arg == "exist_ok" and isinstance(k.value, ast.Constant) and k.value.value is True for k in c.keywords)
        ctx.ob("C18-R7", f.fq, "the directory is created with exist_ok=True", ok, node=c, construct=f"directory created without exist_ok in {f.name}",
               msg=f"{f.name} creates the directory with `{src(c)[:60]}`: when two updates of different files under the same new directory run concurrently, the second creation raises FileExistsError; "
                   "that update neither succeeds nor reports 'not applied' and its entry keeps the writing flag")
    _refusal(ctx, repo, base_lock)
    _completion_order(ctx, repo, cg)
    _lock_identity(ctx, repo, cfuncs, base_lock)


def _lock_identity(ctx, repo, cfuncs, base_lock):
    """C18-R8: a per-file lock excludes the other updates of that file only if everybody gets THE SAME lock object: it is looked up
       or created in an unbounded table owned by the cache, in one critical section of the cache lock."""
    ctx.rule("C18-R8", "per-file lock identity: a lock taken with `with <local>` in the cache classes is obtained by lookup-or-create in a table attribute (dict / WeakValueDictionary made in __init__) "
                       "inside one critical section of the cache lock; no bounded memo, no unguarded setdefault, no lock made per call")
    from ..common import name_defs
    tables = set()
    for f in cfuncs:
        if f.name != "__init__":
            continue
        for n in walk_local(f.node):
            if isinstance(n, ast.Assign) and len(n.targets) == 1 and dotted(n.targets[0]) and dotted(n.targets[0]).startswith("self."):
                v = n.value
                if isinstance(v, ast.Dict) or (isinstance(v, ast.Call) and (dotted(v.func) or "").split(".")[-1] in ("dict", "WeakValueDictionary", "defaultdict")):
                    tables.add(dotted(n.targets[0])[5:])
    n_sites = 0
    for f in cfuncs:
        for w in walk_local(f.node):
            if not isinstance(w, (ast.With, ast.AsyncWith)):
                continue
            for it in w.items:
                e = it.context_expr
                if not isinstance(e, ast.Name):
                    continue
                n_sites += 1
                ctx.instance("C18-R8", f.fq, f"with {e.id}")
                defs = name_defs(f.node, e.id)
                bad = None
                stored = False
                if not defs:
                    bad = (w, f"`{e.id}` is not bound by a local assignment (parameter or global lock): its identity per file cannot be established")
                for v, st in defs:
                    held = base_lock in held_locks(st, f.node)
                    tbl = None
                    if isinstance(v, ast.Call) and isinstance(v.func, ast.Attribute) and v.func.attr in ("get", "setdefault") and (dotted(v.func.value) or "").startswith("self."):
                        tbl = dotted(v.func.value)[5:]
                    elif isinstance(v, ast.Subscript) and (dotted(v.value) or "").startswith("self."):
                        tbl = dotted(v.value)[5:]
                    if tbl is not None:
                        if tbl not in tables:
                            bad = bad or (st, f"`{src(v)[:50]}` reads the lock from self.{tbl}, which is not a plain table created in __init__")
                        elif not held:
                            bad = bad or (st, f"`{src(v)[:50]}` looks the lock up (or creates it) without holding {base_lock}: two first users of one file can each create and take their own lock")
                        continue
                    if isinstance(v, ast.Call) and (dotted(v.func) or "").split(".")[-1] in ("Lock", "RLock"):
                        # creation: must be published into a table in the same critical section
                        pub = [a for a in walk_local(f.node) if isinstance(a, ast.Assign) and isinstance(a.targets[0], ast.Subscript) and (dotted(a.targets[0].value) or "")[5:] in tables
                               and isinstance(a.value, ast.Name) and a.value.id == e.id and base_lock in held_locks(a, f.node)]
                        if not (held and pub):
                            bad = bad or (st, f"a new lock is made here but not published into a table of the cache under {base_lock}: every caller locks its own private lock")
                        stored = True
                        continue
                    bad = bad or (st, f"the lock is the result of `{src(v)[:50]}`: not a lookup in a table of the cache (a memoising function may evict and re-create the lock of a file while another thread holds the old one)")
                ctx.ob("C18-R8", f.fq, f"`with {e.id}`: the lock is the one lock of that file (lookup-or-create under {base_lock} in a table made in __init__)", bad is None,
                       node=(bad[0] if bad else w), construct=f"identity of per-file lock {e.id} in {f.name}", msg=(bad[1] if bad else None))
    ctx.floor("C18-R8", "per-file lock acquisitions", n_sites, 1)


def _sections(f, base_lock, assume):
    """critical sections of f: bodies of `with self.lock`, or the whole body of a lock-assuming function"""
    out = []
    if base_lock in assume[f.fq]:
        out.append(f.node.body)
    for w in walk_local(f.node):
        if isinstance(w, ast.With) and any(dotted(i.context_expr) == f"self.{base_lock}" for i in w.items):
            out.append(w.body)
    return out


def _accounting(ctx, repo, cg, cfuncs, base_lock, assume, concurrency=True):
    """concurrency=False: only the clauses a sequential history can observe (used by C16): the placeholder of an
    in-flight load/write, unloading during I/O and heap insertion of pending entries need a second thread"""
    TOTAL, ENT, HEAP = "current_memory_usage", "file_futures", "file_access_times"
    n = 0
    for f in cfuncs:
        if f.name == "__init__":
            continue
        for body in _sections(f, base_lock, assume):
            stmts = [x for s in body for x in walk_local(s)]
            adds = [x for x in stmts if isinstance(x, ast.AugAssign) and isinstance(x.op, ast.Add) and dotted(x.target) == f"self.{TOTAL}"]
            subs = [x for x in stmts if isinstance(x, ast.AugAssign) and isinstance(x.op, ast.Sub) and dotted(x.target) == f"self.{TOTAL}"]
            stores = [x for x in stmts if isinstance(x, ast.Assign) and any(isinstance(t, ast.Subscript) and dotted(t.value) == f"self.{ENT}" for t in x.targets) and isinstance(x.value, ast.Tuple)]
            dels = [x for x in stmts if isinstance(x, ast.Delete) and any(isinstance(t, ast.Subscript) and dotted(t.value) == f"self.{ENT}" for t in x.targets)]
            # A1
            for st in stores:
                flag, amount = st.value.elts[0], st.value.elts[1] if len(st.value.elts) > 1 else None
                if isinstance(flag, ast.Constant) and flag.value is False:
                    if not concurrency and any(isinstance(c, ast.Call) and callee_name(c) == "submit" for c in stmts):
                        continue     # placeholder of the I/O submitted in this very section: replaced before a sequential caller returns
                    n += 1
                    ctx.instance("C18-R4", f.fq, src(st)[:70])
                    match = [a for a in adds if amount is not None and src(a.value) == src(amount)]
                    ctx.ob("C18-R4", f.fq, f"(A1) non-writing entry stored with bytes `{src(amount)}` comes with `total += {src(amount)}` in the same critical section", bool(match), node=st,
                           construct=f"A1 entry stored without matching total += in {f.name}",
                           msg=f"{f.name} stores a resident (non-writing) entry accounting `{src(amount)}` bytes but the byte total is " + (f"increased by `{src(adds[0].value)}`" if adds else "not increased") + " in that critical section: a later unload/eviction subtracts bytes that were never added (negative or drifting total)",
                           path=f"{f.fq} critical section @{st.lineno}")
                elif isinstance(flag, ast.Constant) and flag.value is True:
                    n += 1
                    ctx.instance("C18-R4", f.fq, src(st)[:70])
                    ctx.ob("C18-R4", f.fq, "(A1) a writing entry is stored without touching the total", not adds, node=st, construct=f"A1 writing entry and total in {f.name}")
            for a in adds:
                n += 1
                ok = any(isinstance(st.value.elts[0], ast.Constant) and st.value.elts[0].value is False and len(st.value.elts) > 1 and src(st.value.elts[1]) == src(a.value) for st in stores)
                ctx.ob("C18-R4", f.fq, f"(A1) `total += {src(a.value)}` comes with the store of the entry it accounts for", ok, node=a, construct=f"A1 total += without entry in {f.name}")
                # C16-R5: dominated by a successful capacity check
                ok = any((isinstance(e, ast.Name) and pol) for e, pol in atoms_at(a, f.node) if isinstance(e, ast.Name) and _is_capacity_result(e.id, f)) or \
                    any(pol and isinstance(e, ast.Call) and callee_name(e) == "recover_memory" for e, pol in atoms_at(a, f.node))      # tested directly, without a name for the verdict
                ctx.ob("C18-R4", f.fq, "(A1) bytes are added only under a successful capacity check (recover_memory result)", ok, node=a, construct=f"total += under capacity check in {f.name}",
                       msg="bytes are added to the total without a successful recover_memory(): the cache can exceed its configured limit")
            # A5: a placeholder for I/O submitted here may only overwrite an entry whose bytes were taken off the total first
            if any(isinstance(c, ast.Call) and callee_name(c) == "submit" for c in stmts):
                sub_names = {g.name for g in cfuncs if any(isinstance(x, ast.AugAssign) and isinstance(x.op, ast.Sub) and dotted(x.target) == f"self.{TOTAL}" for x in walk_local(g.node))}
                for st in stores:
                    key = next((t.slice for t in st.targets if isinstance(t, ast.Subscript) and dotted(t.value) == f"self.{ENT}"), None)
                    n += 1
                    ctx.instance("C18-R4", f.fq, f"overwrite by {src(st)[:50]}")
                    blk = getattr(st, "_parent", None)
                    sibs = next((getattr(blk, fld) for fld in ("body", "orelse", "finalbody") if isinstance(getattr(blk, fld, None), list) and st in getattr(blk, fld)), [])
                    before = sibs[:sibs.index(st)] if st in sibs else []
                    unloaded = any(isinstance(b, ast.Expr) and isinstance(b.value, ast.Call) and isinstance(b.value.func, ast.Attribute) and b.value.func.attr in sub_names and
                                   dotted(b.value.func.value) == "self" and b.value.args and key is not None and src(b.value.args[0]) == src(key) for b in before)
                    absent = False
                    for e, pol in atoms_at(st, f.node):
                        if isinstance(e, ast.Compare) and len(e.ops) == 1 and isinstance(e.comparators[0], ast.Constant) and e.comparators[0].value is None and isinstance(e.left, ast.Name) and \
                                ((pol and isinstance(e.ops[0], ast.Is)) or (not pol and isinstance(e.ops[0], ast.IsNot))):
                            d = [a for a in walk_local(f.node) if isinstance(a, ast.Assign) and any(isinstance(t, ast.Name) and t.id == e.left.id for t in a.targets)]
                            if len(d) == 1 and isinstance(d[0].value, ast.Call) and isinstance(d[0].value.func, ast.Attribute) and d[0].value.func.attr == "get" and \
                                    dotted(d[0].value.func.value) == f"self.{ENT}" and key is not None and d[0].value.args and src(d[0].value.args[0]) == src(key):
                                absent = True
                    ctx.ob("C18-R4", f.fq, "(A5) the entry is overwritten only after its bytes were taken off the total (subtracting routine on the same key) or when it is known absent", unloaded or absent, node=st,
                           construct=f"A5 entry overwritten without un-accounting in {f.name}",
                           msg=f"{f.name} replaces the table entry of `{src(key) if key is not None else '?'}` while the bytes of the entry it replaces stay in the total: after the write completes the new size is added on top, so the total exceeds the sum of the cached entries and grows with every overwrite",
                           path=f"{f.fq} critical section @{st.lineno}")
            # A2/A3
            for s_ in subs:
                n += 1
                ctx.instance("C18-R4", f.fq, src(s_)[:70])
                ok3 = bool(dels)
                ctx.ob("C18-R4", f.fq, "(A3) the subtraction comes with the removal of the entry", ok3, node=s_, construct=f"A3 total -= with removal in {f.name}")
            # A3 (converse): where a section un-accounts AND removes, the removal never happens without the subtraction
            if subs:
                for d_ in dels:
                    n += 1
                    dc = [(id(t), p_) for t, p_ in path_conditions(d_, f.node)]
                    ok3 = any(all(c_ in dc for c_ in [(id(t), p_) for t, p_ in path_conditions(s_, f.node)]) for s_ in subs)
                    ctx.ob("C18-R4", f.fq, "(A3) the entry is removed only together with `total -= its bytes` (the subtraction is under no condition the removal is not under)", ok3, node=d_,
                           construct=f"A3 removal without total -= in {f.name}",
                           msg=f"{f.name} can delete an entry without taking its bytes off the total (the subtraction is conditional, the removal is not): the total stays too high for good and later "
                               "admissions are refused or evict files needlessly")
    if not concurrency:
        ctx.floor("C18-R4", "accounting sites examined", n, 3)
        return
    # A2: every call of the subtracting routine is guarded by a non-writing test of that entry
    sub_fns = [f for f in cfuncs if any(isinstance(x, ast.AugAssign) and isinstance(x.op, ast.Sub) and dotted(x.target) == f"self.{TOTAL}" for x in walk_local(f.node))]
    for sf in sub_fns:
        for f in cfuncs:
            for c in calls_in(f.node):
                if sf in cg.resolve_call(f, c) and dotted(c.func.value) == "self":
                    n += 1
                    ctx.instance("C18-R4", f.fq, src(c))
                    ok = writing_state(f.node, c) == "N"
                    ctx.ob("C18-R4", f.fq, f"(A2) {sf.name} (total -= entry bytes) is reached only for an entry known to be non-writing", ok, node=c,
                           construct=f"A2 unguarded {sf.name} in {f.name}",
                           msg=f"{f.name} removes and un-accounts an entry without checking its writing flag: an entry whose write is in flight carries a claim that was never added to the total, and its completion then finds the entry gone (assertion failure in the worker, exception in the caller)",
                           path=f"{f.fq} -> {sf.fq}")
    # A4: heap insertions
    push_fns = [f for f in cfuncs if any(callee_name(c) == "heappush" for c in calls_in(f.node)) and base_lock in assume[f.fq] and f.name.startswith("update")]
    for pf in push_fns:
        for f in cfuncs:
            for c in calls_in(f.node):
                if pf in cg.resolve_call(f, c) and dotted(c.func.value) == "self":
                    n += 1
                    ctx.instance("C18-R4", f.fq, src(c))
                    blk_adds = False
                    for body in _sections(f, base_lock, assume):
                        if any(c in list(ast.walk(s)) for s in body):
                            blk_adds = any(isinstance(x, ast.AugAssign) and isinstance(x.op, ast.Add) and dotted(x.target) == f"self.{TOTAL}" for s in body for x in walk_local(s))
                    done_guard = any(isinstance(e, ast.Call) and isinstance(e.func, ast.Attribute) and e.func.attr == "done" and pol for e, pol in atoms_at(c, f.node))
                    ctx.ob("C18-R4", f.fq, "(A4) the entry goes on the eviction heap only when its bytes are counted (same section adds them, or the entry's future is done)", blk_adds or done_guard, node=c,
                           construct=f"A4 heap insertion of an uncounted entry in {f.name}",
                           msg=f"{f.name} puts an entry on the eviction heap although its load/write may still be pending (bytes not yet added): evicting it subtracts bytes never added and deletes an entry whose worker later asserts it exists")
    ctx.floor("C18-R4", "accounting sites examined", n, 8)


def _is_capacity_result(name, f):
    for n in walk_local(f.node):
        if isinstance(n, ast.Assign) and any(isinstance(t, ast.Name) and t.id == name for t in n.targets) and isinstance(n.value, ast.Call) and callee_name(n.value) == "recover_memory":
            return True
    return False


class MutSem(Sem):
    """state: frozenset of booleans: cache state has been mutated on this path"""
    base_exc_escapes = False

    def __init__(self, is_mut):
        self.is_mut = is_mut
        self.raises = []

    def join2(self, a, b):
        return a | b

    def transfer(self, st, state):
        if isinstance(st, ast.Raise):
            self.raises.append((st, state))
        if self.is_mut(st):
            return frozenset([True])
        return state


def _refusal(ctx, repo, base_lock):
    upd = repo.fn(f"{FC}:FileCache.update_file")
    get = repo.fn(f"{FC}:FileCache.get_file")

    def is_mut(st):
        for n in walk_local(st):
            if isinstance(n, ast.Call) and isinstance(n.func, ast.Attribute) and dotted(n.func.value) == "self" and n.func.attr in ("_unload_file", "update_file_access_time", "recover_memory"):
                return True
            if isinstance(n, ast.Call) and callee_name(n) == "submit":
                return True
            if isinstance(n, ast.Subscript) and isinstance(n.ctx, (ast.Store, ast.Del)) and (dotted(n.value) or "").startswith("self."):
                return True
            if isinstance(n, ast.AugAssign) and (dotted(n.target) or "").startswith("self."):
                return True
        return False
    for f in (upd, get):
        ctx.instance("C18-R5", f.fq)
        sem = MutSem(is_mut)
        sem.run(f.node, frozenset([False]))
        for st, state in sem.raises:
            ctx.ob("C18-R5", f.fq, f"`{src(st)[:50]}` refuses before any cache state was touched", True not in state, node=st, construct=f"refusal after mutation in {f.name}",
                   msg=f"{f.name} raises after it already changed cache state (unloaded the entry / touched the heap): the refused operation has an effect, and the heap can keep a record of an entry that no longer exists")
        ctx.floor("C18-R5", f"refusing raise statements in {f.name}", len(sem.raises), 1)
    # the 'not applied' arm of update_file: decided from the facts that hold at each statement, whatever the spelling of the test
    entry = None
    for n in walk_local(upd.node):
        if isinstance(n, ast.Assign) and isinstance(n.targets[0], ast.Name) and isinstance(n.value, ast.Call) and isinstance(n.value.func, ast.Attribute) and \
                n.value.func.attr == "get" and dotted(n.value.func.value) == "self.file_futures":
            entry = n.targets[0].id
    if entry is None:
        ctx.ob("C18-R5", upd.fq, "update_file distinguishes 'write in flight' from 'apply'", False, node=upd.node, construct="writing-flag test present")
        return

    names = {entry}          # the entry variable and plain copies of it
    for _ in range(3):
        for n in walk_local(upd.node):
            if isinstance(n, ast.Assign) and isinstance(n.value, ast.Name) and n.value.id in names and isinstance(n.targets[0], ast.Name):
                names.add(n.targets[0].id)

    def is_flag(e):
        if isinstance(e, ast.Call) and callee_name(e) == "bool" and len(e.args) == 1:
            e = e.args[0]
        return isinstance(e, ast.Subscript) and isinstance(e.value, ast.Name) and e.value.id in names and isinstance(e.slice, ast.Constant) and e.slice.value == 0

    def is_absent(e):      # `entry is None`
        return isinstance(e, ast.Compare) and len(e.ops) == 1 and isinstance(e.left, ast.Name) and e.left.id in names and isinstance(e.comparators[0], ast.Constant) and \
            e.comparators[0].value is None and isinstance(e.ops[0], ast.Is)

    def is_present(e):     # `entry is not None`
        return isinstance(e, ast.Compare) and len(e.ops) == 1 and isinstance(e.left, ast.Name) and e.left.id in names and isinstance(e.comparators[0], ast.Constant) and \
            e.comparators[0].value is None and isinstance(e.ops[0], ast.IsNot)

    def writing_pred(e):
        """'W' if e is true exactly when a write is in flight (entry present and flag set), 'N' if exactly when none is, else None"""
        if isinstance(e, ast.UnaryOp) and isinstance(e.op, ast.Not):
            r = writing_pred(e.operand)
            return {"W": "N", "N": "W"}.get(r)
        if is_flag(e):
            return "W"
        if isinstance(e, ast.BoolOp) and isinstance(e.op, ast.And) and any(is_flag(v) for v in e.values) and all(is_flag(v) or is_present(v) for v in e.values):
            return "W"
        if isinstance(e, ast.BoolOp) and isinstance(e.op, ast.Or) and all(is_absent(v) or writing_pred(v) == "N" for v in e.values) and any(writing_pred(v) == "N" for v in e.values):
            return "N"
        if isinstance(e, ast.Name):
            d = [a.value for a in walk_local(upd.node) if isinstance(a, ast.Assign) and any(isinstance(t, ast.Name) and t.id == e.id for t in a.targets)]
            if len(d) == 1:
                return writing_pred(d[0])
        return None

    def flag_state(node):
        st_ = None
        for t, pol in path_conditions(node, upd.node):
            w = writing_pred(t)
            if w is not None:
                st_ = w if pol else {"W": "N", "N": "W"}[w]
            for e, p_ in split_conj(t, pol):
                w = writing_pred(e)
                if w is not None:
                    st_ = w if p_ else {"W": "N", "N": "W"}[w]
                elif is_absent(e) and p_:
                    st_ = "N"
        return st_
    muts = [s_ for s_ in walk_local(upd.node) if isinstance(s_, ast.stmt) and not isinstance(s_, (ast.If, ast.With, ast.Try, ast.For, ast.While) + FUNC) and is_mut(s_)]
    states = {id(s_): flag_state(s_) for s_ in muts}
    found = any(v is not None for v in states.values()) or any(writing_pred(t) is not None for n in walk_local(upd.node) if isinstance(n, ast.If) for t in [n.test])
    bad = [s_ for s_ in muts if states[id(s_)] != "N"]
    ctx.ob("C18-R5", upd.fq, "every statement that changes the cache runs only when no write of that file is in flight (the 'not applied' path performs no submit and no store)", not bad,
           node=bad[0] if bad else upd.node, construct="not-applied arm is effect free", msg="an update that reports 'not applied' nevertheless changes the cache")
    # the result: False exactly on the write-in-flight path
    from ..flow import return_alts
    okr, n_alt = True, 0
    for facts, v, r in return_alts(upd.node):
        if v is None:
            okr = False
            continue
        n_alt += 1
        d = v
        if isinstance(d, ast.Name):
            dd = [a for a in walk_local(upd.node) if isinstance(a, ast.Assign) and any(isinstance(t, ast.Name) and t.id == d.id for t in a.targets)]
            if len(dd) == 1:
                d = dd[0].value
        if isinstance(d, ast.Constant) and isinstance(d.value, bool):
            # which path is this constant assigned / returned on?
            site = next((a for a in walk_local(upd.node) if isinstance(a, ast.Assign) and a.value is d), r)
            fs = flag_state(site)
            okr = okr and ((d.value is True and fs == "N") or (d.value is False and fs == "W"))
        else:
            okr = okr and writing_pred(d) == "N"        # `applied = not write_in_flight`
    ctx.ob("C18-R5", upd.fq, "the result is False exactly on the write-in-flight path and True where the write was submitted", okr and n_alt >= 1, node=upd.node, construct="not-applied arm reports False")
    ctx.ob("C18-R5", upd.fq, "update_file distinguishes 'write in flight' from 'apply'", found, node=upd.node, construct="writing-flag test present")


class IOSem(Sem):
    """state: frozenset of booleans: the file I/O of this worker routine has completed"""
    base_exc_escapes = False

    def __init__(self, report):
        self.report = report

    def join2(self, a, b):
        return a | b

    def with_exit(self, st, state, kind="normal"):
        if any(isinstance(i.context_expr, ast.Call) and callee_name(i.context_expr) == "open" for i in st.items) and kind != "exc":
            return frozenset([True])
        return state

    def transfer(self, st, state):
        for c in calls_in(st):
            if isinstance(c.func, ast.Attribute) and c.func.attr == "update_file_futures_and_memory":
                self.report(c, state)
        return state


def _completion_order(ctx, repo, cg):
    workers = [f for f in repo.all_funcs((FC,)) if f.cls == "FileCache" and any(
        isinstance(c.func, ast.Attribute) and c.func.attr == "update_file_futures_and_memory" for c in calls_in(f.node)) and any(callee_name(c) == "open" for c in calls_in(f.node))]
    ctx.floor("C18-R6", "worker routines (file I/O + completion)", len(workers), 2)
    for w in workers:
        ctx.instance("C18-R6", w.fq)
        seen = []
        IOSem(lambda c, s: seen.append((c, s))).run(w.node, frozenset([False]))
        for c, s in seen:
            ctx.ob("C18-R6", w.fq, "the completion routine (flag cleared, bytes counted) runs only after the file was read/written and closed", s == frozenset([True]), node=c,
                   construct=f"completion before I/O in {w.name}",
                   msg=f"{w.name} clears the entry's writing flag before its disk I/O has finished: a second writer is admitted while the first write is still outstanding, both report success and cache and disk can end up with different contents")
        ctx.ob("C18-R6", w.fq, "the completion routine is called exactly once", len(seen) == 1, node=w.node, construct=f"one completion in {w.name}")


# functions whose mechanical mutants are swept in the thorough tier (coverage evidence, see sa/mutate.py)
MUTATION_SCOPE = ['db/file_cache:FileCache._load_file',
                  'db/file_cache:FileCache._write_file',
                  'db/file_cache:FileCache.update_file_access_time',
                  'db/file_cache:FileCache.update_file_futures_and_memory',
                  'db/file_cache:FileCache.update_file',
                  'db/file_cache:FileCache._unload_file',
                  'db/file_cache:FileCache.unload_file',
                  'db/file_cache:FileCache.recover_memory',
                  'db/file_cache:FileCache.get_file',
                  'db/df_cache:PandasDataFrameCache.update']

SEEDS = [
    Seed("lock-table-setdefault-unguarded", "fault", "db/df_cache", "        with self.file_futures_lock:\n            flock = self.append_locks.get(file_name)\n            if flock is None:\n                flock = threading.Lock()\n                self.append_locks[file_name] = flock\n",
         "        flock = self.append_locks.setdefault(file_name, threading.Lock())\n", rule="C18-R8"),
    Seed("lock-per-call", "fault", "db/df_cache", "            flock = self.append_locks.get(file_name)\n            if flock is None:\n                flock = threading.Lock()\n                self.append_locks[file_name] = flock\n",
         "            flock = threading.Lock()\n", rule="C18-R8"),
    Seed("makedirs-check-then-create", "fault", "db/file_cache", "        os.makedirs(write_path, exist_ok=True)", "        if not os.path.isdir(write_path):\n            os.makedirs(write_path)", rule="C18-R7"),
    Seed("unload-subtracts-only-when-done", "fault", "db/file_cache", "            self.current_memory_usage -= info[1]\n            del self.file_futures[file_name]",
         "            if info[-1].done():\n                self.current_memory_usage -= info[1]\n            del self.file_futures[file_name]", rule="C18-R4"),
    Seed("update-overwrites-without-unload", "fault", FC, "                self._unload_file(file_name)\n                future = self.executor.submit(self._write_file", "                future = self.executor.submit(self._write_file", rule="C18-R4"),
    Seed("read-outside-lock", "fault", FC, "        with self.file_futures_lock:\n            info = self.file_futures.get(file_name)\n            if info is None:\n                tinfo(f\"get_file: {file_name}\")",
         "        info = self.file_futures.get(file_name)\n        with self.file_futures_lock:\n            if info is None:\n                tinfo(f\"get_file: {file_name}\")", rule="C18-R1"),
    Seed("unload-without-lock", "fault", FC, "        with self.file_futures_lock:\n            self.file_access_times = [(t, fn) for t, fn in self.file_access_times if fn != file_name]\n            heapq.heapify(self.file_access_times)\n            self._unload_file(file_name)",
         "        self.file_access_times = [(t, fn) for t, fn in self.file_access_times if fn != file_name]\n        heapq.heapify(self.file_access_times)\n        with self.file_futures_lock:\n            self._unload_file(file_name)", rule="C18-R1"),
    Seed("append-lock-lookup-outside", "fault", DC, "        with self.file_futures_lock:\n            flock = self.append_locks.get(file_name)\n            if flock is None:\n                flock = threading.Lock()\n                self.append_locks[file_name] = flock",
         "        flock = self.append_locks.get(file_name)\n        if flock is None:\n            with self.file_futures_lock:\n                flock = threading.Lock()\n                self.append_locks[file_name] = flock", rule="C18-R1"),
    Seed("result-under-lock", "fault", FC, "                write_applied = False\n        future.result()\n        return write_applied", "                write_applied = False\n            future.result()\n        return write_applied", rule="C18-R2"),
    Seed("append-lock-under-cache-lock", "fault", DC, "                self.append_locks[file_name] = flock\n        with flock:", "                self.append_locks[file_name] = flock\n            flock.acquire()\n            flock.release()\n        with flock:", rule="C18-R2"),
    Seed("entry-size-from-claim", "fault", FC, "                self.file_futures[file_name] = (False, memory_usage, info[-1])", "                self.file_futures[file_name] = (False, info[1], info[-1])", rule="C18-R4"),
    Seed("add-without-capacity-check", "fault", FC, "            if can_cache:\n                self.update_file_access_time(file_name)", "            if can_cache or memory_usage < 1024:\n                self.update_file_access_time(file_name)", rule="C18-R4"),
    Seed("access-time-for-pending-load", "fault", FC, "                if future.done():\n                    self.update_file_access_time(file_name)", "                self.update_file_access_time(file_name)", rule="C18-R4"),
    Seed("oversize-check-after-unload", "fault", FC, "        claim = len(new_file_contents)\n        if claim > self.max_memory:\n            raise MemoryError(f\"requested file update larger than max_memory: {file_name} {claim} {self.max_memory}\")\n        with self.file_futures_lock:\n            info = self.file_futures.get(file_name)\n            if info is None or not info[0]:\n                self._unload_file(file_name)\n",
         "        with self.file_futures_lock:\n            info = self.file_futures.get(file_name)\n            if info is None or not info[0]:\n                self._unload_file(file_name)\n                claim = len(new_file_contents)\n                if claim > self.max_memory:\n                    raise MemoryError(f\"requested file update larger than max_memory: {file_name} {claim} {self.max_memory}\")\n", rule="C18-R5"),
    Seed("not-applied-arm-submits", "fault", FC, "                future = info[-1]\n                write_applied = False", "                future = self.executor.submit(self._write_file, file_name, new_file_contents, use_fsync)\n                write_applied = False", rule="C18-R5"),
    Seed("accounting-before-write", "fault", FC, "        write_fname = os.path.join(self.root_path, file_name)\n        write_path = os.path.dirname(write_fname)",
         "        contents, memory_usage = self.process_contents(new_file_contents)\n        self.update_file_futures_and_memory(file_name, memory_usage=memory_usage)\n        write_fname = os.path.join(self.root_path, file_name)\n        write_path = os.path.dirname(write_fname)", rule="C18-R6",
         more=[("                os.fsync(f.fileno())\n        contents, memory_usage = self.process_contents(new_file_contents)\n        self.update_file_futures_and_memory(file_name, memory_usage=memory_usage)\n        return contents", "                os.fsync(f.fileno())\n        return contents")]),
    Seed("refactor-rename-info", "refactor", FC, "            info = self.file_futures.get(file_name)\n            if info is None or not info[0]:\n                self._unload_file(file_name)",
         "            entry = self.file_futures.get(file_name)\n            info = entry\n            if info is None or not info[0]:\n                self._unload_file(file_name)"),
    Seed("refactor-tinfo-outside", "refactor", FC, "        contents, memory_usage = self.process_contents(new_file_contents)\n        self.update_file_futures_and_memory(file_name, memory_usage=memory_usage)\n        return contents",
         "        contents, memory_usage = self.process_contents(new_file_contents)\n        tinfo(f\"written: {file_name}\")\n        self.update_file_futures_and_memory(file_name, memory_usage=memory_usage)\n        return contents"),
]
