"""C04 — evaluation depends only on program text and variable state; values are immutable.

Structural clauses decided: no verb, adverb, system function or interpreter step writes in place into a
value it did not allocate (the documented in-situ dictionary operations excepted); whatever is memoised
is a function of its cache key and has no effect that a cache hit would skip; every path that rebinds a
variable reaches the compile-memo invalidation; dictionary literals are copied at each evaluation.
That results are *equal* across histories is NOT decided.
"""
import ast

from ..model import AnalysisError, src, callee_name, dotted, walk_local, calls_in, FUNC, names_in, pos
from ..flow import atoms_at, path_conditions, split_conj, Sem
from ..callgraph import CallGraph
from .. import fresh, effects
from ..common import resolve_single_assign
from ..selftest import Seed

META = {
    "technique": "ownership (freshness) analysis of every in-place write, effect analysis of memoised computations, who-may-write of the variable store, thunk-shape check of dictionary literals, must-pass invalidation on every normal path of the variable writers, re-wrap rule of call()",
    "level_text": "Static proof over every in-place write site of the evaluation code that the written object was allocated in the same activation (or is a documented shared dictionary), and over every memo site that the memoised computation has no skipped effect and no stale input. This is exactly the hidden state a single evaluation cannot see (second evaluation, later write through a view, rebinding); equality of results is not decided.",
    "level_note": "decides the structural clause below from source; does not decide the behaviour. Trusted: the frozen NumPy/Python API table in sa/fresh.py (allocating vs aliasing vs in-place); values reachable from syntax-tree nodes and parameters are shared.",
    "explanation": (
        "Static analysis of klongpy/{monads,dyads,adverbs,types,autograd,writer,sys_fn,backends/base,backends/numpy_backend}.py and the "
        "evaluation half of interpreter.py: (R1) flow-sensitive freshness analysis with function summaries; every subscript store, del, "
        "in-place method, numpy.put/out=, augmented assignment must target a FRESH value, except the three documented dictionary updates "
        "(Join both operand orders, Drop), each under a dict test; (R2) for each memo (parse cache, compiled cache, node-level _compiled) the "
        "transitive write effects of the memoised computation and the invalidation on every variable write path; (R3) the reader hands a "
        "dictionary literal to the program only inside a call node whose function returns a copy of its argument."
        " The invalidation of the compiled-expression memo must be reached on every normal path of __setitem__/__delitem__ (not only exist), and call() must re-wrap every function node so that per-node memos land on throw-away nodes."),
    "assumptions": ["allocating / aliasing / in-place API facts as listed in coverage.trusted_base", "interpreter state (variable store, caches) is written through self/klong receivers only"],
}

VALUE_MODULES = ("monads", "dyads", "adverbs", "types", "autograd", "writer", "sys_fn", "sys_fn_autograd", "backends/base", "backends/numpy_backend")
INTERP_FUNCS = ("interpreter:KlongInterpreter.eval", "interpreter:KlongInterpreter.call", "interpreter:KlongInterpreter._eval_fn",
                "interpreter:KlongInterpreter._resolve_fn", "interpreter:KlongInterpreter.__call__", "interpreter:KlongInterpreter.exec",
                "interpreter:chain_adverbs")
SUMMARY_MODULES = ["monads", "dyads", "adverbs", "types", "autograd", "backends/base", "backends/numpy_backend", "backends/torch_backend",
                   "interpreter", "writer", "sys_fn_autograd", "sys_fn", "sys_var", "utils", "compiler", "parser"]
# documented in-situ operations: (function, object written) -> reason
DOC_INSITU = {
    ("dyads:eval_dyad_join", "a"): "d,[k v] updates the dictionary in place (reference manual: dictionaries are shared objects)",
    ("dyads:eval_dyad_join", "b"): "[k v],d updates the dictionary in place",
    ("dyads:eval_dyad_drop", "b"): "k_d removes the key from the dictionary in place",
}
PROCESS_STATE = ("sys.path", "sys.meta_path", "os.environ", "sys.modules")


def _is_dict_guarded(node, obj, fnode):
    d = src(obj)
    for e, pol in atoms_at(node, fnode):
        if pol and isinstance(e, ast.Call) and callee_name(e) in ("is_dict", "isinstance") and e.args and src(e.args[0]) == d:
            if callee_name(e) == "is_dict" or (len(e.args) == 2 and src(e.args[1]) in ("dict", "(dict,)", "KGModule", "(dict, KGModule)")):
                return True
    return False


def fresh_write_scan(ctx, repo, cg, summ, rid, modules, extra_funcs=()):
    """-> number of sinks examined; reports obligations under rule id `rid`"""
    n = 0
    seen_doc = set()
    todo = [f for f in repo.all_funcs(modules) if f.parent is None] + [repo.fn(fq) for fq in extra_funcs]
    for f in todo:
        for fa in fresh.analyse_function(f, cg, summ):
            site_fr = {}
            for node, obj, fr, kind in fa.sinks:
                if fr == "state":
                    continue
                if dotted(obj) in PROCESS_STATE or (dotted(obj) or "").startswith(("sys.", "os.")):
                    continue
                key = (node, src(obj), kind)
                site_fr[key] = fr if key not in site_fr else fresh.meet(site_fr[key], fr)
                site_fr.setdefault(("obj", key), obj)
            for key, fr in list(site_fr.items()):
                if key[0] == "obj":
                    continue
                node, objs, kind = key
                obj = site_fr[("obj", key)]
                n += 1
                where = fa.fi.fq
                top = where.split(".<lambda>")[0]
                ctx.instance(rid, where, f"{kind}: {src(node)[:70]}")
                doc = DOC_INSITU.get((top, objs))
                if doc is not None and fr != fresh.FRESH:
                    fn_node = fa.fi.node
                    guarded = _is_dict_guarded(node, obj, fn_node)
                    seen_doc.add((top, objs))
                    ctx.ob(rid, where, f"documented in-situ dictionary update of `{objs}` is guarded by a dict test", guarded, node=node,
                           construct=f"in-situ {kind} on {objs}", msg=f"the in-place update of `{objs}` is no longer restricted to dictionaries: lists/arrays passed here are modified in place")
                    continue
                ctx.ob(rid, where, f"{kind} on `{objs}` writes into a value allocated in this activation", fr == fresh.FRESH, node=node,
                       construct=f"{kind} on {objs}",
                       msg=f"`{objs}` is {fr}: it may be the caller's value, a literal inside the cached parse tree, or a view of another variable; writing it in place changes values the program never assigned",
                       path=f"{where} line {node.lineno}")
    return n, seen_doc


def check(ctx):
    repo = ctx.repo
    cg = CallGraph(repo)
    ctx.rule("C04-R1", "FRESH-WRITE: every in-place sink in the evaluation code targets a value allocated in the same activation; exceptions: the three documented dictionary updates, each dominated by a dict test")
    ctx.rule("C04-R2", "memo soundness: (a) the memoised parse has no write effect that a cache hit would skip (or the store is guarded by a test that the effect did not happen) and reads interpreter state only through its key; (b) every compile memo is invalidated on every variable write path; (c) variables are written only through the interpreter's __setitem__/__delitem__")
    ctx.rule("C04-R3", "a dictionary built at parse time reaches the program only as the argument of a call node whose function returns a copy of its argument")
    for t in fresh.trusted_facts():
        ctx.trust(t)

    summ = fresh.compute_summaries(repo, cg, SUMMARY_MODULES)
    n, seen_doc = fresh_write_scan(ctx, repo, cg, summ, "C04-R1", VALUE_MODULES, INTERP_FUNCS)
    ctx.floor("C04-R1", "in-place sinks examined", n, 40)
    for k, why in DOC_INSITU.items():
        ctx.control("C04-R1", f"documented in-situ site {k[0]} on `{k[1]}` is matched ({why})", k in seen_doc)
    ctx.note("callgraph_resolution", cg.resolution_stats())
    ctx.note("functions_proved_to_return_fresh", sum(1 for v in summ.ret.values() if v == fresh.FRESH))

    check_memo(ctx, repo, cg, "C04-R2")
    # the per-node compile memo is only tolerable on throw-away nodes: call() re-wraps every function node (shared with C03-R6 / C05-R7)
    from . import c05
    c05.check_rewrap(ctx, repo, "C04-R2")
    check_dict_literal(ctx, repo, "C04-R3")
    _state_inventory(ctx, repo, "C04-R5")
    ctx.rule("C04-R4", "memoised compiled code is built from the text only: no value read from the variable state flows into the IR (shared with C05-R9)")
    c05.check_no_state_in_ir(ctx, repo, "C04-R4")


# ------------------------------------------------------------------ R5 every container that outlives an evaluation is a reviewed one
REVIEWED_MODULE_STATE = {
    # module-level mutable containers of the evaluation modules that are reviewed (none on the pinned tree)
}


def _state_inventory(ctx, repo, rid="C04-R5"):
    """Evaluation may depend on the program text and the variable state only.  Everything else that outlives one evaluation is a
    memo, and each memo needs an argument why a hit equals a recomputation (C04-R2 gives it for the reviewed ones).  This rule makes
    the list closed: (a) the interpreter / context objects carry no container-valued attribute beyond the reviewed inventory;
    (b) the evaluation modules hold no module-level container that a function fills."""
    import json, os
    ctx.rule(rid, "closed world of memos: no container-valued attribute on KlongInterpreter / KlongContext beyond the reviewed ones, and no module-level container in the evaluation modules that functions write")
    inv = json.load(open(os.path.join(os.path.dirname(os.path.dirname(os.path.abspath(__file__))), "inventory.json")))
    is_container = lambda v: isinstance(v, (ast.Dict, ast.List, ast.Set)) or (isinstance(v, ast.Call) and callee_name(v) in (
        "dict", "list", "set", "OrderedDict", "defaultdict", "deque", "WeakValueDictionary", "WeakKeyDictionary", "LRUCache", "Counter"))
    for cname in ("KlongInterpreter", "KlongContext"):
        known = set(inv["attrs"].get(f"interpreter:{cname}", []))
        ctx.instance(rid, f"interpreter:{cname}")
        new = []
        for f in repo.module("interpreter").funcs.values():
            if f.cls != cname:
                continue
            for n in walk_local(f.node):
                if isinstance(n, (ast.Assign, ast.AnnAssign)) and getattr(n, "value", None) is not None and is_container(n.value):
                    for t in (n.targets if isinstance(n, ast.Assign) else [n.target]):
                        if isinstance(t, ast.Attribute) and isinstance(t.value, ast.Name) and t.value.id == "self" and t.attr not in known and t.attr not in repo.renames.get("attributes", {}).values():
                            new.append((t.attr, n, f))
        for attr, n, f in new:
            ctx.ob(rid, f.fq, f"{cname} carries no unreviewed container", False, node=n, construct=f"unreviewed container self.{attr} on {cname}",
                   msg=f"{cname}.{attr} is a new container that outlives one evaluation (a cache, a look-ahead buffer, a registry): what it holds can make a later evaluation of the same text in the same "
                       "variable state differ; it needs an invalidation argument like the reviewed memos (C04-R2) before this check can pass")
        ctx.ob(rid, f"interpreter:{cname}", f"container-valued attributes of {cname} are the reviewed ones ({len(known)} attributes in the inventory)", not new, construct=f"{cname} state inventory")
    from ..common import check_no_class_level_containers
    k = check_no_class_level_containers(ctx, repo, rid, [("interpreter", "KlongInterpreter"), ("interpreter", "KlongContext")],
                                        "a parse / compiled-expression cache filled by one interpreter answers for another whose variables differ")
    ctx.floor(rid, "interpreter state classes inspected for class-level containers", k, 2)
    for mod in ("compiler", "interpreter", "types", "dyads", "monads", "adverbs"):
        m = repo.modules.get(mod)
        if m is None:
            continue
        conts = {t.id: n for n in m.tree.body if isinstance(n, (ast.Assign, ast.AnnAssign)) and getattr(n, "value", None) is not None and is_container(n.value)
                 for t in (n.targets if isinstance(n, ast.Assign) else [n.target]) if isinstance(t, ast.Name)}
        for name, n in conts.items():
            if (mod, name) in REVIEWED_MODULE_STATE:
                continue
            writers = []
            for f in m.funcs.values():
                for x in walk_local(f.node):
                    if isinstance(x, ast.Subscript) and isinstance(x.ctx, (ast.Store, ast.Del)) and isinstance(x.value, ast.Name) and x.value.id == name:
                        writers.append((f, x))
                    if isinstance(x, ast.Call) and isinstance(x.func, ast.Attribute) and isinstance(x.func.value, ast.Name) and x.func.value.id == name and \
                            x.func.attr in ("append", "add", "update", "setdefault", "insert", "extend", "pop", "clear", "popitem", "appendleft"):
                        writers.append((f, x))
            if writers:
                f, x = writers[0]
                ctx.ob(rid, f.fq, f"no function fills a module-level container of `{mod}`", False, node=x, construct=f"module-level container {name} written in {f.name}",
                       msg=f"`{name}` in klongpy/{mod}.py is a process-wide container that {f.name} writes: a memo shared by every interpreter and every evaluation; equal keys (('literal', 2) == ('literal', 2.0)) "
                           "or stale entries make evaluation depend on what was evaluated before")


# ------------------------------------------------------------------ R2
class _ClearSem(Sem):
    """state: the named memo has been cleared (or replaced) on every path reaching here"""
    base_exc_escapes = False

    def __init__(self, name):
        self.name = name

    def join2(self, a, b):
        return a and b

    def transfer(self, st, state):
        if any(isinstance(c.func, ast.Attribute) and c.func.attr == "clear" and dotted(c.func.value) == self.name for c in calls_in(st)):
            return True
        if isinstance(st, ast.Assign) and any(dotted(t) == self.name for t in st.targets):
            return True
        return state


def check_memo(ctx, repo, cg, rid):
    interp = "interpreter"
    call = repo.fn("interpreter:KlongInterpreter.__call__")
    # (a) parse memo
    stores = [n for n in walk_local(call.node) if isinstance(n, ast.Assign) and any(
        isinstance(t, ast.Subscript) and dotted(t.value) == "self._parse_cache" for t in n.targets)]
    ctx.floor(rid, "parse-memo stores in __call__", len(stores), 1)
    for st in stores:
        ctx.instance(rid, call.fq, "parse memo")
        key = resolve_single_assign(st.targets[0].slice, call.node)
        memo_calls = [c for c in calls_in(call.node) if isinstance(c.func, ast.Attribute) and c.func.attr == "prog" and dotted(c.func.value) == "self"]
        if not memo_calls:
            ctx.error(f"{rid}: memoised parser call not found in __call__")
            continue
        root = repo.fn("interpreter:KlongInterpreter.prog")
        reach = effects.transitive(cg, root, ("interpreter", "parser", "types"))
        ctx.note("functions_reachable_from_prog", len(reach))
        writes = []
        reads = set()
        for fq in reach:
            g = repo.fn(fq)
            if g.cls not in (None, "KlongInterpreter"):
                continue
            for attr, node, kind in effects.attr_writes(g):
                writes.append((fq, attr, node, kind))
            reads |= effects.attr_reads(g) if g.cls == "KlongInterpreter" or "klong" in g.params() else set()
        ctx.floor(rid, "functions reachable from the memoised parser", len(reach), 20)
        keynames = {src(e) for e in (key.elts if isinstance(key, ast.Tuple) else [key])}
        for fq, attr, node, kind in writes:
            # a write effect is tolerated only if the memo store is dominated by a test that the attribute kept its pre-parse value
            guard = False
            for t, pol in path_conditions(st, call.node):
                for e, p in split_conj(t, pol):
                    if isinstance(e, ast.Compare) and len(e.ops) == 1 and isinstance(e.ops[0], ast.Eq) and p:
                        sides = [e.left, e.comparators[0]]
                        if any(dotted(s) == f"self.{attr}" for s in sides):
                            other = next(s for s in sides if dotted(s) != f"self.{attr}")
                            if isinstance(other, ast.Name):
                                d = [a for a in walk_local(call.node) if isinstance(a, ast.Assign) and any(isinstance(x, ast.Name) and x.id == other.id for x in a.targets)]
                                if len(d) == 1 and dotted(d[0].value) == f"self.{attr}" and pos(d[0]) < pos(memo_calls[0]):
                                    guard = True
            ctx.ob(rid, fq, f"the memoised parse's write to self.{attr} ({kind}) cannot be skipped by a cache hit (memo store guarded by `self.{attr} == <value before the parse>`)", guard, node=node,
                   construct=f"memoised parser writes self.{attr}",
                   msg=f"parsing writes self.{attr} (in {fq}) but the parse is memoised under {sorted(keynames)}: on a cache hit the write is skipped, so the same text behaves differently the second time",
                   path=f"{call.fq} -> prog -> ... -> {fq}")
        # inputs of the parse: interpreter attributes read must be in the key or immutable after construction
        const_attrs = _attrs_only_written_in_init(repo)
        for attr in sorted(reads):
            if attr.startswith("__") or attr in ("prog", "_expr", "_factor", "_read_fn_args", "_apply_adverbs", "current_module", "parse_module", "_is_monad", "_is_dyad"):
                continue
            ok = f"self.{attr}" in keynames or attr in const_attrs
            ctx.ob(rid, call.fq, f"parser input self.{attr} is part of the memo key or fixed at construction", ok, node=st, construct=f"parser reads self.{attr}",
                   msg=f"the parser reads self.{attr}, which can change between calls, but the parse cache key is {sorted(keynames)}")
    # (b) compile memos
    ev = repo.fn("interpreter:KlongInterpreter.eval")
    setf = repo.fn("interpreter:KlongInterpreter.__setitem__")
    delf = repo.fn("interpreter:KlongInterpreter.__delitem__")
    memo_sites = []
    for f in (call, ev):
        for n in walk_local(f.node):
            if isinstance(n, ast.Assign) and _derives_from_compile(n.value, f.node):
                for t in n.targets:
                    if isinstance(t, ast.Subscript) and (dotted(t.value) or "").startswith("self."):
                        memo_sites.append((f, n, "dict", dotted(t.value)))
                    elif isinstance(t, ast.Attribute) and not (isinstance(t.value, ast.Name) and t.value.id == "self"):
                        memo_sites.append((f, n, "node", t.attr))
    # any other attribute stored on the syntax-tree node being evaluated is a node-level memo too
    evp = ev.params()[1] if len(ev.params()) > 1 else None
    for n in walk_local(ev.node):
        if isinstance(n, ast.Assign):
            for t in n.targets:
                if isinstance(t, ast.Attribute) and isinstance(t.value, ast.Name) and t.value.id == evp and not any(s[1] is n for s in memo_sites):
                    ctx.instance(rid, ev.fq, f"node memo {t.attr}")
                    ctx.ob(rid, ev.fq, f"no value derived from interpreter state is memoised on the syntax-tree node (.{t.attr})", False, node=n,
                           construct=f"node memo .{t.attr} on the evaluated syntax-tree node",
                           msg=f"eval stores .{t.attr} on the syntax-tree node it evaluates; nodes live in cached parse trees and function bodies, so what is stored (built from the current variable bindings) is reused after those bindings changed")
    ctx.floor(rid, "compile memo stores", len(memo_sites), 2)
    for f, n, kind, name in memo_sites:
        ctx.instance(rid, f.fq, f"compile memo {name}")
        if kind == "dict":
            attr = name.split(".", 1)[1]
            for wf in (setf, delf):
                exits = _ClearSem(name).run(wf.node, False)
                normal = [e for e in exits if e.kind == "return"]
                missed = [e for e in normal if not e.state]
                ctx.ob(rid, wf.fq, f"{wf.name} clears the compile memo {name} on every path that returns normally", bool(normal) and not missed,
                       node=missed[0].node if missed else wf.node, construct=f"{wf.name} invalidates {name}",
                       msg=f"rebinding a variable through {wf.name} can leave compiled code in {name} that was specialised to the old value's type "
                           f"(the memo is not cleared on the path to line {missed[0].line if missed else wf.node.lineno}: clearing must not depend on the value being stored)",
                       path=f"entry {wf.fq} -> exit line {missed[0].line if missed else wf.node.lineno}")
        else:
            # node-level memo: valid only if its use is guarded by a generation test that the variable-write paths advance
            guarded = False
            for ld in walk_local(f.node):
                if isinstance(ld, ast.Call) and callee_name(ld) == "getattr" and len(ld.args) >= 2 and isinstance(ld.args[1], ast.Constant) and ld.args[1].value == name:
                    blk = ld
                    while not isinstance(blk, ast.stmt):
                        blk = blk._parent
                    nxt = blk._parent
                    txt = " ".join(src(s) for s in getattr(nxt, "body", []))
                    if "epoch" in txt or "generation" in txt or "version" in txt:
                        guarded = True
            arm = next((src(t) for t, pol in path_conditions(n, f.node) if pol and isinstance(t, ast.Call) and isinstance(t.func, ast.Attribute) and t.func.attr.startswith("is_")), "eval")
            ctx.ob(rid, f.fq, f"node-level compile memo .{name} is invalidated when a variable is rebound", guarded, node=n, construct=f"node memo .{name} never invalidated",
                   msg=f"compiled code memoised on the syntax-tree node (.{name}) depends on the types of the variables' values at first evaluation; __setitem__/__delitem__ clear only _compiled_cache, so after rebinding a variable a function body keeps running code specialised to the old type")
    # (c) who may write variables
    nvw = 0
    for f in repo.all_funcs():
        for n in walk_local(f.node):
            if isinstance(n, (ast.Assign, ast.AugAssign, ast.Delete)):
                tg = n.targets if not isinstance(n, ast.AugAssign) else [n.target]
                for t in tg:
                    if isinstance(t, ast.Subscript) and dotted(t.value) in ("klong._context", "self.klong._context"):
                        nvw += 1
                        ok = f.fq == "sys_fn_ipc:execute_server_command"     # documented: temporary .cli.h handle, deleted on every exit (C03-R2)
                        ctx.ob(rid, f.fq, "variables are written through the interpreter (klong[...]), which invalidates the compile memo", ok, node=n,
                               construct=f"direct context store {src(t)}", msg="a variable is rebound behind the interpreter's back: the compiled-expression cache is not cleared and keeps code specialised to the old value")
    ctx.control(rid, "direct context stores are recognised (the documented .cli.h binding in the IPC server)", nvw >= 1)


def _attrs_only_written_in_init(repo):
    m = repo.module("interpreter")
    written_elsewhere, in_init = set(), set()
    for f in m.funcs.values():
        if f.cls != "KlongInterpreter":
            continue
        for attr, node, kind in effects.attr_writes(f):
            (in_init if f.name == "__init__" else written_elsewhere).add(attr) if kind == "store" else None
    return in_init - written_elsewhere


def _derives_from_compile(v, fnode):
    for n in ast.walk(v):
        if isinstance(n, ast.Call) and callee_name(n) == "compile_expr":
            return True
        if isinstance(n, ast.Name):
            d = [a for a in walk_local(fnode) if isinstance(a, ast.Assign) and any(isinstance(t, ast.Name) and t.id == n.id for t in a.targets)]
            if any(isinstance(c, ast.Call) and callee_name(c) == "compile_expr" for a in d for c in ast.walk(a.value)):
                return True
    return False


# ------------------------------------------------------------------ R3 (shared with C10-R1)
def check_dict_literal(ctx, repo, rid):
    kr = repo.fn("parser:kg_read")
    builds = [c for c in calls_in(kr.node) if callee_name(c) == "list_to_dict"]
    ctx.floor(rid, "dictionary literal construction sites in the reader", len(builds), 1)
    for b in builds:
        ctx.instance(rid, kr.fq, "dictionary literal")
        st = b._parent
        dvar = st.targets[0].id if isinstance(st, ast.Assign) and isinstance(st.targets[0], ast.Name) else None
        uses = [n for n in walk_local(kr.node) if isinstance(n, ast.Name) and n.id == dvar and isinstance(n.ctx, ast.Load) and pos(n) >= pos(st) and n is not b.args[0]] if dvar else []
        # every use after the construction is as the args of a KGCall whose function is a copying thunk
        # uses that cannot let the object out: inside an assert, or as argument of a type/size predicate
        def _harmless(u):
            q = u
            while q is not None and not isinstance(q, ast.stmt):
                if isinstance(q, ast.Call) and callee_name(q) in ("isinstance", "len", "type", "is_dict", "bool") and u in q.args:
                    return True
                q = getattr(q, "_parent", None)
            return isinstance(q, ast.Assert)
        uses = [u for u in uses if not _harmless(u)]
        if dvar is None and not isinstance(st, ast.stmt):
            uses = [b]                   # the dictionary is built right where it is handed on
        ok_all = bool(uses)
        for u in uses:
            p = u._parent
            call = p._parent if isinstance(p, ast.keyword) else p
            ok = isinstance(call, ast.Call) and callee_name(call) == "KGCall" and call.args and isinstance(call.args[0], ast.Name)
            if ok:
                thunk = call.args[0].id
                ok = _is_copy_thunk(repo, thunk)
                ar = next((k.value for k in call.keywords if k.arg == "arity"), call.args[2] if len(call.args) > 2 else None)
                ok = ok and isinstance(ar, ast.Constant) and ar.value == 0
            ok_all = ok_all and ok
        ctx.ob(rid, kr.fq, "the parse-time dictionary leaves the reader only inside KGCall(<copying thunk>, args=d, arity=0)", ok_all, node=st,
               construct="dictionary literal wrapped in a copying thunk",
               msg="the dictionary built while parsing is handed to the program directly (or through a non-copying function): parse trees are cached and function bodies reused, so every evaluation of the literal yields the same mutable object")


def _is_copy_thunk(repo, name):
    m = repo.module("parser")
    for n in m.tree.body:
        if isinstance(n, ast.Assign) and any(isinstance(t, ast.Name) and t.id == name for t in n.targets):
            v = n.value
            if isinstance(v, ast.Call) and callee_name(v) == "KGLambda" and v.args and isinstance(v.args[0], ast.Lambda):
                lam = v.args[0]
                p = lam.args.args[0].arg if lam.args.args else None
                b = lam.body
                if isinstance(b, ast.Call):
                    cn = dotted(b.func) or ""
                    if cn in ("copy.deepcopy", "copy.copy", "deepcopy", "dict") and len(b.args) == 1 and isinstance(b.args[0], ast.Name) and b.args[0].id == p:
                        return True
                    if isinstance(b.func, ast.Attribute) and b.func.attr == "copy" and isinstance(b.func.value, ast.Name) and b.func.value.id == p:
                        return True
                if isinstance(b, ast.Dict) and len(b.keys) == 1 and b.keys[0] is None and isinstance(b.values[0], ast.Name) and b.values[0].id == p:
                    return True
    return False


# functions whose mechanical mutants are swept in the thorough tier (coverage evidence, see sa/mutate.py)
MUTATION_SCOPE = ['dyads:eval_dyad_amend',
                  'dyads:_e_dyad_amend_in_depth',
                  'dyads:eval_dyad_reshape',
                  'dyads:eval_dyad_join',
                  'dyads:eval_dyad_drop',
                  'dyads:eval_dyad_define',
                  'monads:eval_monad_range',
                  'types:merge_projections',
                  'interpreter:KlongInterpreter.__call__',
                  'interpreter:KlongInterpreter.__setitem__',
                  'interpreter:KlongInterpreter.__delitem__',
                  'parser:kg_read']

SEEDS = [
    Seed("interpreter-grows-a-function-cache", "fault", "interpreter", "        self._compiled_cache = {}\n", "        self._compiled_cache = {}\n        self._fn_cache = {}\n", rule="C04-R5"),
    Seed("memoised-helper-result-written-in-place", "fault", "backends/numpy_backend", "    def str_to_char_array(self, s):", "    @functools.lru_cache(maxsize=64)\n    def str_to_char_array(self, s):", rule="C04-R1",
         more=[("backends/numpy_backend", "import numpy as np\n", "import functools\nimport numpy as np\n")]),
    Seed("amend-asarray", "fault", "dyads", "    r = np_backend.array(a) # clone", "    r = np_backend.asarray(a)", rule="C04-R1"),
    Seed("reshape-no-copy", "fault", "dyads", "                a = np_backend.copy(a)\n", "", rule="C04-R1"),
    Seed("amend-in-depth-asarray", "fault", "dyads", "        p = bknp.array(p, dtype=object) if isinstance(v, (str, KGSym)) else bknp.array(p)", "        p = bknp.asarray(p, dtype=object) if isinstance(v, (str, KGSym)) else bknp.array(p)", rule="C04-R1"),
    Seed("range-sorts-operand", "fault", "monads", "            ids.sort()\n            return a[ids]", "            a_np.sort(axis=0)\n            ids.sort()\n            return a[ids]", rule="C04-R1"),
    Seed("merge-projections-no-copy", "fault", "types", "    sparse_fa = np.copy(arr[0])", "    sparse_fa = arr[0]", rule="C04-R1"),
    Seed("append-to-ast-args", "fault", "interpreter", "        f_args = [None] if x.args is None else [x.args if isinstance(x.args, list) else [x.args]]", "        f_args = [None] if x.args is None else (x.args if isinstance(x.args, list) and len(x.args) and isinstance(x.args[0], list) else [x.args if isinstance(x.args, list) else [x.args]])", rule="C04-R1"),
    Seed("join-insitu-unguarded", "fault", "dyads", "    if isinstance(a,dict):\n        a[b[0]] = b[1]\n        return a", "    if isinstance(a,(dict,list)):\n        a[b[0]] = b[1]\n        return a", rule="C04-R1"),
    Seed("cache-parse-always", "fault", "interpreter", "            if self._module == module_before:\n                self._parse_cache[cache_key] = cached", "            self._parse_cache[cache_key] = cached", rule="C04-R2"),
    Seed("key-without-module", "fault", "interpreter", "        cache_key = (x, self._module)", "        cache_key = (x,)", rule="C04-R2"),
    Seed("setitem-keeps-compiled", "fault", "interpreter", "        # results since Python operators have different semantics per type.\n        self._compiled_cache.clear()", "        # results since Python operators have different semantics per type.\n        pass", rule="C04-R2"),
    Seed("define-bypasses-setitem", "fault", "dyads", "    klong[n] = v\n    return v", "    klong._context[n] = v\n    return v", rule="C04-R2"),
    Seed("dict-literal-identity", "fault", "parser", "copy_lambda = KGLambda(lambda x: copy.deepcopy(x))", "copy_lambda = KGLambda(lambda x: x)", rule="C04-R3"),
    Seed("dict-literal-direct", "fault", "parser", "            return i, KGCall(copy_lambda, args=d, arity=0)", "            return i, d", rule="C04-R3"),
    Seed("refactor-copy-idiom", "refactor", "dyads", "    r = np_backend.array(a) # clone", "    r = np_backend.copy(np_backend.asarray(a))"),
    Seed("refactor-shallow-copy-thunk", "refactor", "parser", "copy_lambda = KGLambda(lambda x: copy.deepcopy(x))", "copy_lambda = KGLambda(lambda x: copy.copy(x))"),
    Seed("refactor-rename-local", "refactor", "dyads", "                a = np_backend.copy(a)\n                a[y] = backend.array_size(b) // 2", "                a = np_backend.array(a)\n                a[y] = backend.array_size(b) // 2"),
]
