"""E1 source model: parse every module under <root>/klongpy from the working tree.

Nothing here imports or runs klongpy. A module that fails to parse is an AnalysisError.
"""
import ast
import hashlib
import os
import warnings


class AnalysisError(Exception):
    """The analysis itself cannot decide (vanished anchor, unparsable module, floor not met)."""


FUNC = (ast.FunctionDef, ast.AsyncFunctionDef)


class FuncInfo:
    __slots__ = ("module", "qual", "node", "cls", "parent", "name")

    def __init__(self, module, qual, node, cls, parent):
        self.module = module      # Module
        self.qual = qual          # "Class.func.inner"
        self.node = node
        self.cls = cls            # enclosing ClassDef name or None
        self.parent = parent      # enclosing FuncInfo or None
        self.name = node.name

    @property
    def fq(self):
        return f"{self.module.name}:{self.qual}"

    @property
    def is_async(self):
        return isinstance(self.node, ast.AsyncFunctionDef)

    def params(self):
        a = self.node.args
        return [x.arg for x in a.posonlyargs + a.args]

    def __repr__(self):
        return f"<fn {self.fq}>"


class Module:
    def __init__(self, name, path, source, tree=None):
        self.name = name          # e.g. "interpreter", "db/file_cache"
        self.path = path
        self.source = source
        if tree is None:
            with warnings.catch_warnings():
                warnings.simplefilter("ignore")
                tree = ast.parse(source, filename=path)
        self.tree = tree
        from .normalize import normalize
        self.normal_form = normalize(name, self.tree)
        from .normalize import FLATTENED
        if FLATTENED.get(name):
            self.normal_form["flattened_bases"] = FLATTENED[name]
        from .normalize import MOVED
        if MOVED.get(name):
            self.normal_form["moved_in"] = MOVED[name]
        SHARED = (ast.expr_context, ast.boolop, ast.operator, ast.unaryop, ast.cmpop)   # CPython shares one instance of each per interpreter
        # document order of the NORMAL FORM (inlined code keeps the line numbers of where it was written, for reports; order
        # questions - does this store precede that use? - are answered with pos(), never with line numbers)
        counter = [0]

        def number(n):
            if isinstance(n, SHARED):
                return
            counter[0] += 1
            n._pos = (counter[0], 0)
            for c in ast.iter_child_nodes(n):
                number(c)
        import sys as _sys
        old_limit = _sys.getrecursionlimit()
        _sys.setrecursionlimit(max(old_limit, 10000))
        try:
            number(self.tree)
        finally:
            _sys.setrecursionlimit(old_limit)
        for parent in ast.walk(self.tree):
            for child in ast.iter_child_nodes(parent):
                if not isinstance(child, SHARED):
                    child._parent = parent
        self.tree._parent = None
        self.funcs = {}           # qual -> FuncInfo
        self.classes = {}         # name -> ClassDef
        self._index(self.tree.body, "", None, None)

    def _index(self, body, prefix, cls, parent):
        for n in body:
            if isinstance(n, ast.ClassDef):
                if parent is None and cls is None:
                    self.classes[n.name] = n
                self._index(n.body, prefix + n.name + ".", n.name if cls is None else cls, parent)
            elif isinstance(n, FUNC):
                fi = FuncInfo(self, prefix + n.name, n, cls, parent)
                self.funcs[fi.qual] = fi
                n._fi = fi
                self._index_nested(n, prefix + n.name + ".", cls, fi)

    def _index_nested(self, fnode, prefix, cls, parent):
        # nested defs anywhere inside the body (if/for/try blocks included)
        def rec(node):
            for c in ast.iter_child_nodes(node):
                if isinstance(c, FUNC):
                    fi = FuncInfo(self, prefix + c.name, c, cls, parent)
                    self.funcs[fi.qual] = fi
                    c._fi = fi
                    self._index_nested(c, prefix + c.name + ".", cls, fi)
                elif isinstance(c, ast.ClassDef):
                    self._index(c.body, prefix + c.name + ".", c.name, parent)
                elif isinstance(c, ast.Lambda):
                    continue
                else:
                    rec(c)
        rec(fnode)


class Repo:
    """All modules of <root>/klongpy; `overrides` maps relative module path -> replacement source
    (used by the self-validation seeds: no scratch copy on disk is needed)."""

    def __init__(self, root="/repo", overrides=None):
        self.root = root
        self.pkg = os.path.join(root, "klongpy")
        self.modules = {}
        overrides = overrides or {}
        if not os.path.isdir(self.pkg):
            raise AnalysisError(f"package directory missing: {self.pkg}")
        h = hashlib.sha256()
        import gc
        gc_was = gc.isenabled()
        gc.disable()          # building ~35 syntax trees with parent links: generational collections of that heap dominate the time otherwise
        try:
            self._load(overrides, h)
        finally:
            if gc_was:
                gc.enable()
        unknown = set(overrides) - set(self.modules)
        if unknown:
            raise AnalysisError(f"override for unknown module(s): {sorted(unknown)}")
        self.digest = h.hexdigest()[:16]

    def _load(self, overrides, h):
        # parse everything first: the normaliser needs a view of the whole repository (renames, parameter-mutation summaries)
        trees, srcs, paths = {}, {}, {}
        for dp, dn, fn in sorted(os.walk(self.pkg)):
            dn.sort()
            if "__pycache__" in dp:
                continue
            for f in sorted(fn):
                if not f.endswith(".py"):
                    continue
                path = os.path.join(dp, f)
                name = os.path.relpath(path, self.pkg)[:-3]
                src_ = overrides.get(name)
                if src_ is None:
                    with open(path, encoding="utf-8") as fh:
                        src_ = fh.read()
                h.update(name.encode()); h.update(src_.encode())
                try:
                    with warnings.catch_warnings():
                        warnings.simplefilter("ignore")
                        trees[name] = ast.parse(src_, filename=path)
                except SyntaxError as e:
                    raise AnalysisError(f"cannot parse {path}: {e}")
                srcs[name], paths[name] = src_, path
        from . import normalize as _nz
        self.renames = _nz.prepare(trees)
        for name in trees:
            self.modules[name] = Module(name, paths[name], srcs[name], tree=trees[name])

    # ---- lookup
    def module(self, name):
        m = self.modules.get(name)
        if m is None:
            raise AnalysisError(f"anchor module vanished: klongpy/{name}.py")
        return m

    def fn(self, fq):
        """fq = 'module:Qual.name' ; vanished anchor -> AnalysisError"""
        mod, qual = fq.split(":")
        f = self.module(mod).funcs.get(qual)
        if f is None:
            raise AnalysisError(f"anchor function vanished: {fq}")
        return f

    def fn_opt(self, fq):
        mod, qual = fq.split(":")
        m = self.modules.get(mod)
        return m.funcs.get(qual) if m else None

    def cls(self, mod, name):
        c = self.module(mod).classes.get(name)
        if c is None:
            raise AnalysisError(f"anchor class vanished: {mod}:{name}")
        return c

    def all_funcs(self, modules=None):
        for mn, m in self.modules.items():
            if modules is not None and mn not in modules:
                continue
            for f in m.funcs.values():
                yield f

    def stats(self):
        return {"units": len(self.modules),
                "functions": sum(len(m.funcs) for m in self.modules.values()),
                "source_digest": self.digest}


# ------------------------------------------------------------------ AST helpers

def pos(node):
    """position of a node in the document order of the analysed (normal) form; use this, not line numbers, to ask what comes first"""
    p = getattr(node, "_pos", None)
    return p if p is not None else (getattr(node, "lineno", 0), getattr(node, "col_offset", 0))


def src(node):
    """normalised source text of a node (used for keys and reports; never for matching rules)"""
    try:
        return " ".join(ast.unparse(node).split())
    except Exception:
        return f"<{type(node).__name__}>"


def callee_name(call):
    f = call.func
    if isinstance(f, ast.Name):
        return f.id
    if isinstance(f, ast.Attribute):
        return f.attr
    return None


def dotted(node):
    """'a.b.c' for Name/Attribute chains, else None"""
    parts = []
    while isinstance(node, ast.Attribute):
        parts.append(node.attr)
        node = node.value
    if isinstance(node, ast.Name):
        parts.append(node.id)
        return ".".join(reversed(parts))
    return None


def walk_local(node, include_root=True):
    """walk a function body without descending into nested defs/lambdas/classes"""
    stack = [node]
    first = True
    while stack:
        n = stack.pop()
        if not first and isinstance(n, FUNC + (ast.Lambda, ast.ClassDef)):
            continue
        if include_root or not first:
            yield n
        first = False
        stack.extend(reversed(list(ast.iter_child_nodes(n))))


def calls_in(node, local=True):
    it = walk_local(node) if local else ast.walk(node)
    return [n for n in it if isinstance(n, ast.Call)]


def parents(node):
    p = getattr(node, "_parent", None)
    while p is not None:
        yield p
        p = getattr(p, "_parent", None)


def enclosing_stmt(node):
    n = node
    while n is not None and not isinstance(n, ast.stmt):
        n = getattr(n, "_parent", None)
    return n


def enclosing_func(node):
    for p in parents(node):
        if isinstance(p, FUNC):
            return p
    return None


def is_const(node, value):
    return isinstance(node, ast.Constant) and node.value is value or (
        isinstance(node, ast.Constant) and type(node.value) is type(value) and node.value == value)


def names_in(node):
    return {n.id for n in ast.walk(node) if isinstance(n, ast.Name)}


def stmt_list_of(node):
    """all statement lists (bodies) directly inside node"""
    for field in ("body", "orelse", "finalbody"):
        b = getattr(node, field, None)
        if isinstance(b, list) and b and isinstance(b[0], ast.stmt):
            yield b
    for h in getattr(node, "handlers", []) or []:
        yield h.body
