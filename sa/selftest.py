"""E10: checker self-validation. Every fault seed is a small edit of the CURRENT source of one module
(applied in memory: Repo(overrides=...), nothing is written to disk); the rule named by the seed must
report a finding that the unmodified tree does not have.  Every refactor seed is a behaviour-preserving
edit; the set of findings must stay exactly the same.  A miss is an error of the checker
(ANALYSIS-ERROR), never a violation of the repository.  A seed whose anchor text is no longer in the
source (the repository moved on) is skipped and reported as skipped."""
import os
from concurrent.futures import ProcessPoolExecutor

from .model import Repo, AnalysisError
from .report import Ctx


class Seed:
    def __init__(self, name, kind, module, old, new, rule=None, where=None, count=1, more=()):
        """more: further (old, new) replacements in the same module, each applied exactly once"""
        assert kind in ("fault", "refactor")
        self.name, self.kind, self.module, self.old, self.new = name, kind, module, old, new
        self.rule, self.where, self.count, self.more = rule, where, count, tuple(more)


def _apply(repo, seed):
    """-> {module: new source} or None when an anchor text is not present exactly as often as expected"""
    out = {}
    src = repo.module(seed.module).source
    if src.count(seed.old) != seed.count:
        return None
    out[seed.module] = src.replace(seed.old, seed.new)
    for item in seed.more:
        mod, o, n = (seed.module,) + tuple(item) if len(item) == 2 else tuple(item)
        cur = out.get(mod, repo.module(mod).source)
        if cur.count(o) != 1:
            return None
        out[mod] = cur.replace(o, n)
    return out


def _reformat_all(args):
    """global behaviour-preserving refactor: every module re-printed by ast.unparse (comments dropped, quotes, line
    breaks and all line numbers changed).  The verdict must not change: rules may not depend on text or positions."""
    modname, root, pid = args
    import ast, importlib, warnings
    mod = importlib.import_module(modname)
    base = Repo(root)
    over = {}
    with warnings.catch_warnings():
        warnings.simplefilter("ignore")
        for name, m in base.modules.items():
            try:
                over[name] = ast.unparse(ast.parse(m.source)) + "\n"
            except Exception as e:   # pragma: no cover
                return "crash", repr(e)
    try:
        repo = Repo(root, overrides=over)
        ctx = Ctx(pid, "quick", repo, quiet=True)
        try:
            mod.check(ctx)
        except AnalysisError as e:
            ctx.error(str(e))
    except Exception as e:
        import traceback
        return "crash", traceback.format_exc()[-400:]
    return "ran", ([f.key() for f in ctx.findings], list(ctx.errors))


def _one(args):
    modname, root, pid, idx = args
    import importlib
    mod = importlib.import_module(modname)
    seed = mod.SEEDS[idx]
    base = Repo(root)
    new = _apply(base, seed)
    if new is None:
        return idx, "skipped", "anchor text not present (count mismatch)"
    try:
        for mname, text in new.items():
            compile(text, mname, "exec")
    except SyntaxError as e:
        return idx, "bad-seed", f"seeded source does not compile: {e}"
    try:
        repo = Repo(root, overrides=new)
        ctx = Ctx(pid, "quick", repo, quiet=True)
        try:
            mod.check(ctx)
        except AnalysisError as e:
            ctx.error(str(e))
    except Exception as e:  # checker crashed on the variant
        return idx, "crash", repr(e)
    return idx, "ran", ([f.key() for f in ctx.findings], list(ctx.errors))


def run(mod, repo, pid, ctx):
    seeds = getattr(mod, "SEEDS", [])
    base_keys = {f.key() for f in ctx.findings}
    res = {"fault_total": 0, "fault_fired": 0, "refactor_total": 0, "refactor_silent": 0, "skipped": [], "details": []}
    # the normaliser is trusted by every rule: its differential test (synthetic modules executed before/after) must agree
    try:
        import subprocess, sys as _sys
        tn = os.path.join(os.path.dirname(os.path.dirname(os.path.abspath(__file__))), "tools", "test_normalize.py")
        r = subprocess.run([_sys.executable, tn], capture_output=True, text=True, timeout=120)
        res["normaliser_differential_test"] = (r.stdout.strip().splitlines() or ["?"])[-1]
        if r.returncode != 0:
            ctx.error("selftest: sa/normalize.py changes the behaviour of a synthetic test module (tools/test_normalize.py): " + res["normaliser_differential_test"])
    except Exception as e:        # noqa: BLE001
        ctx.error(f"selftest: normaliser differential test could not run: {e!r}")
    jobs = [(mod.__name__, repo.root, pid, i) for i in range(len(seeds))]
    with ProcessPoolExecutor(max_workers=min(16, len(jobs) + 1, os.cpu_count() or 1)) as ex:
        fut = ex.submit(_reformat_all, (mod.__name__, repo.root, pid))
        results = list(ex.map(_one, jobs))
        rstatus, rpayload = fut.result()
    res["refactor_total"] += 1
    if rstatus == "ran":
        keys, errors = rpayload
        new = [k for k in keys if tuple(k) not in base_keys]
        gone = [k for k in base_keys if k not in {tuple(x) for x in keys}]
        if not new and not gone and not errors:
            res["refactor_silent"] += 1
            res["details"].append({"seed": "global-reformat (ast.unparse of all modules)", "kind": "refactor", "silent": True})
        else:
            ctx.error(f"selftest: global reformat changed the verdict (new: {new[:3]}, gone: {gone[:3]}, errors: {errors[:2]})")
    else:
        ctx.error(f"selftest: global reformat crashed the checker: {rpayload}")
    for idx, status, payload in results:
        s = seeds[idx]
        if status == "skipped":
            res["skipped"].append(s.name)
            continue
        if status in ("crash", "bad-seed"):
            ctx.error(f"selftest: seed {s.name}: {status}: {payload}")
            continue
        keys, errors = payload
        new = [k for k in keys if tuple(k) not in base_keys]
        gone = [k for k in base_keys if k not in {tuple(x) for x in keys}]
        if s.kind == "fault":
            res["fault_total"] += 1
            hit = [k for k in new if (s.rule is None or k[1] == s.rule) and (s.where is None or s.where in k[2])]
            # an ANALYSIS-ERROR on the variant also counts as "not silently passed" only when the seed says so
            if hit or (s.rule == "ANALYSIS-ERROR" and errors):
                res["fault_fired"] += 1
                res["details"].append({"seed": s.name, "kind": "fault", "fired": [list(k[1:]) for k in hit][:3] or errors[:1]})
            else:
                ctx.error(f"selftest: fault seed '{s.name}' not detected by {s.rule} (new findings: {new[:3]}, errors: {errors[:2]})")
        else:
            res["refactor_total"] += 1
            if not new and not gone and not errors:
                res["refactor_silent"] += 1
                res["details"].append({"seed": s.name, "kind": "refactor", "silent": True})
            else:
                ctx.error(f"selftest: refactor seed '{s.name}' changed the verdict (new: {new[:3]}, gone: {gone[:3]}, errors: {errors[:2]})")
    return res
