"""Thorough tier: the stored corpora of /verif as regression evidence for one property.

seeded/<id>/<k>/patch.diff     property-breaking changes written by independent sub-agents (must be reported)
refactors/<id>/<k>/patch.diff  behaviour-preserving edits written by independent sub-agents (must be silent)

Each patch is applied to a scratch copy of the CURRENT /repo/klongpy (tempfile, removed at once); a patch that no longer
applies to the current tree is skipped and counted.  The result goes into the evidence file (coverage.corpus); it does not
change the verdict on the unchanged tree."""
import os
import shutil
import subprocess
import tempfile

from .model import Repo, AnalysisError
from .report import Ctx

VERIF = os.path.dirname(os.path.dirname(os.path.abspath(__file__)))


def _verdict(rule_mod, root, pid, base_keys):
    try:
        repo = Repo(root)
        ctx = Ctx(pid, "quick", repo, quiet=True)
        try:
            rule_mod.check(ctx)
        except AnalysisError as e:
            ctx.error(str(e))
        new = [f.key() for f in ctx.findings if f.key() not in base_keys]
        return sorted({k[1] for k in new}), list(ctx.errors)
    except Exception as e:        # a crash of the checker on a corpus entry is itself a result
        return [], [f"checker crashed: {e!r}"]


def run(rule_mod, repo, pid, base_ctx):
    base_keys = {f.key() for f in base_ctx.findings}
    out = {}
    for kind in ("seeded", "refactors"):
        d = os.path.join(VERIF, kind, pid)
        res = {"entries": 0, "skipped_patch_does_not_apply": 0, "reported": [], "silent": [], "analysis_error": []}
        if os.path.isdir(d):
            for k in sorted(os.listdir(d)):
                patch = os.path.join(d, k, "patch.diff")
                if not os.path.exists(patch):
                    continue
                res["entries"] += 1
                tmp = tempfile.mkdtemp(prefix="vr.")
                try:
                    shutil.copytree(os.path.join(repo.root, "klongpy"), os.path.join(tmp, "klongpy"))
                    r = subprocess.run(["patch", "-p1", "-s", "-i", patch], cwd=tmp, capture_output=True, text=True)
                    if r.returncode != 0:
                        res["skipped_patch_does_not_apply"] += 1
                        continue
                    rules, errors = _verdict(rule_mod, tmp, pid, base_keys)
                    if rules:
                        res["reported"].append({"entry": k, "rules": rules})
                    elif errors:
                        res["analysis_error"].append({"entry": k, "errors": [e[:160] for e in errors]})
                    else:
                        res["silent"].append(k)
                finally:
                    shutil.rmtree(tmp, ignore_errors=True)
        out[kind] = res
    return out
