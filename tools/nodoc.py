#!/venv/bin/python
"""print a module without docstrings and comments-only lines, keeping original line numbers"""
import ast, sys, warnings
warnings.simplefilter("ignore")
p = sys.argv[1]
srcl = open(p).read().split("\n")
t = ast.parse("\n".join(srcl))
skip = set()
for n in ast.walk(t):
    if isinstance(n, (ast.FunctionDef, ast.AsyncFunctionDef, ast.ClassDef, ast.Module)) and n.body and isinstance(n.body[0], ast.Expr) and isinstance(n.body[0].value, ast.Constant) and isinstance(n.body[0].value.value, str):
        d = n.body[0]
        skip |= set(range(d.lineno, d.end_lineno + 1))
for i, l in enumerate(srcl, 1):
    if i in skip or not l.strip():
        continue
    print(f"{i:5d} {l}")
