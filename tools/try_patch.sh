#!/bin/sh
# tools/try_patch.sh <patch.diff> <Cxx> [tier]  — run a check against a scratch copy of /repo/klongpy with the patch applied
# (never touches /repo; the scratch copy lives under $TMPDIR and is removed afterwards)
set -u
P=$(readlink -f "$1"); ID=$2; TIER=${3:-quick}
D=$(mktemp -d "${TMPDIR:-/tmp}/vr.XXXXXX")
cp -r /repo/klongpy "$D/klongpy"
if ! (cd "$D" && patch -p1 -s < "$P"); then echo "PATCH-DID-NOT-APPLY $P"; rm -rf "$D"; exit 3; fi
cd "$(dirname "$0")/.." && VERIF_REPO="$D" VERIF_EVIDENCE_DIR="$D/evidence" ./vcheck "$ID" "$TIER"
rc=$?
rm -rf "$D"
exit $rc
