#!/venv/bin/python
"""tools/refactor_matrix.py <root> [ids...] — apply each behaviour-preserving patch under <root>/<id>/<k>/patch.diff to a scratch copy
and run all registered checks: any VIOLATION / ANALYSIS-ERROR is a false alarm to investigate."""
import json, os, subprocess, sys, tempfile, shutil
from concurrent.futures import ThreadPoolExecutor
VERIF = os.path.dirname(os.path.dirname(os.path.abspath(__file__)))
root = sys.argv[1]
ids = sys.argv[2:] or sorted(d for d in os.listdir(root) if os.path.isdir(os.path.join(root, d)))
checks = [c["property_id"] for c in json.load(open(os.path.join(VERIF, "MANIFEST.json")))["checks"]]
seeds = []
for p in ids:
    if "/" in p:                     # one refactoring: C02/8
        seeds.append(os.path.join(root, p))
    else:
        seeds += [os.path.join(root, p, k) for k in sorted(os.listdir(os.path.join(root, p))) if os.path.exists(os.path.join(root, p, k, "patch.diff"))]

def run(seed):
    d = tempfile.mkdtemp(prefix="vr.")
    try:
        shutil.copytree("/repo/klongpy", os.path.join(d, "klongpy"))
        r = subprocess.run(["patch", "-p1", "-s", "-i", os.path.join(seed, "patch.diff")], cwd=d, capture_output=True, text=True)
        if r.returncode != 0:
            return seed, ["APPLY-FAILED"]
        out = []
        for c in checks:
            env = dict(os.environ, VERIF_REPO=d, VERIF_EVIDENCE_DIR=os.path.join(d, "ev"))
            r = subprocess.run([os.path.join(VERIF, "vcheck"), c, "quick"], capture_output=True, text=True, env=env)
            for l in r.stdout.splitlines():
                if (l.startswith("/") and " C" in l) or l.startswith("ANALYSIS-ERROR"):
                    out.append(f"{c}: {l[:400]}")
            if r.returncode not in (0, 1, 2):
                out.append(f"{c}: exit {r.returncode} {r.stderr[-300:]}")
        return seed, out
    finally:
        shutil.rmtree(d, ignore_errors=True)

with ThreadPoolExecutor(max_workers=int(os.environ.get('VERIF_JOBS', '14'))) as ex:
    res = list(ex.map(run, seeds))
bad = 0
for seed, out in res:
    tag = "/".join(seed.split("/")[-2:])
    print(f"{tag:8s} {'silent' if not out else 'ALARM'}")
    for l in out:
        print("      ", l)
    bad += bool(out)
print(f"{len(res)} refactorings, {bad} with alarms")
