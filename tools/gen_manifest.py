#!/venv/bin/python
"""Regenerate /verif/MANIFEST.json from the rule modules' META (run from /verif)."""
import importlib
import json
import os
import sys

sys.path.insert(0, os.path.dirname(os.path.dirname(os.path.abspath(__file__))))
ALL = [f"C{n:02d}" for n in range(1, 21)]
NA = {
    "C01": "quantifies over operand values and shapes; results are computed by NumPy on runtime data; no structural clause of the verb code is a necessary condition of 'returns the prescribed value' (static analysis not applicable, see DESIGN.md section 5)",
    "C06": "correctness of a derivative is a numerical statement about function values at points; the finite-difference formula and autograd are library arithmetic (the probe-aliasing hazard is decided under C07-R2)",
    "C08": "agreement of two numerical libraries over programs x dtypes x shapes is value-level; 'whenever both return' makes missing-API errors vacuous (the only structural part, the two IR emit tables, is checked under C05-R3)",
}
checks, na = [], []
for pid in ALL:
    try:
        mod = importlib.import_module(f"sa.rules.{pid.lower()}")
    except ImportError:
        na.append({"property_id": pid, "reason": NA.get(pid, "check not built yet in this commit (planned, see DESIGN.md section 4); not claimed until its rules run clean")})
        continue
    m = mod.META
    checks.append({
        "property_id": pid,
        "quick_cmd": f"./vcheck {pid} quick",
        "thorough_cmd": f"./vcheck {pid} thorough",
        "evidence_file": f"/verif/evidence/{pid}.json",
        "replay_cmd_template": f"./vcheck {pid} --replay {{path}}",
        "engine": "sa",
        "level_claimed": {"category": "other", "text": m["level_text"], "design_ref": m.get("design_ref", f"DESIGN.md section 4, {pid}")},
        "level_note": m["level_note"],
        "technique": m["technique"],
    })
man = {
    "version": 1,
    "setup_cmd": "/venv/bin/python -m compileall -q sa tools",
    "hooks": {
        "guard": "KLONGPY_VERIF",
        "enable": "no hooks: the checks only parse /repo/klongpy/**/*.py with ast; the guard name is reserved and no source commit uses it",
        "baseline_off_cmd": "cd /repo && /venv/bin/python -m pytest -ra -q -p no:cacheprovider --timeout=900 --continue-on-collection-errors",
        "source_commits": [],
        "add_only": True,
    },
    "engines": [{
        "name": "sa", "path": "/verif/sa",
        "serves_properties": [c["property_id"] for c in checks],
        "kind_free_text": "repository-specific static analysis on Python ast: source model, resolved call graph with class hierarchy, structured exit-path abstract interpreter (CFG with exception edges and duplicated finally), path conditions, freshness/effect/progress analyses, table extraction; all rules run on a NORMAL FORM of the source (sa/normalize.py: helpers, decorators, context managers, small classes and tables that are new with respect to the reviewed inventory are undone first; the rewrites are differential-tested on synthetic modules by tools/test_normalize.py in every thorough run); self-validated by in-memory fault/refactor seeds, a mutation sweep and the stored seeded/ and refactors/ corpora in the thorough tier",
    }],
    "checks": checks,
    "notes": "Technique family: static analysis only. Every check decides a named structural clause of its property from the current /repo working tree (never imports or runs klongpy) and says so in level_note and evidence. Exit 0 held / 1 VIOLATION / 2 ANALYSIS-ERROR. Known genuine defects that were not repaired are in known_findings.json and reported as KNOWN-FINDING lines.",
    "not_applicable": na,
}
with open("MANIFEST.json", "w") as fh:
    json.dump(man, fh, indent=1)
print(f"{len(checks)} checks, {len(na)} not applicable")
