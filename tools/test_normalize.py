#!/venv/bin/python
"""tools/test_normalize.py — differential test of sa/normalize.py on synthetic modules (none of this is klongpy code):
each module is executed before and after normalisation on a grid of inputs; results and exception types must agree.
(The normaliser is part of the checker's trusted base: an unsound rewrite would make the rules analyse another program.)
Exit 0 when every case agrees."""
import ast
import itertools
import os
import sys

sys.path.insert(0, os.path.dirname(os.path.dirname(os.path.abspath(__file__))))
from sa import normalize as N      # noqa: E402

CASES = []


def case(src, calls):
    CASES.append((src, calls))


# ---- helper inlining: early returns, try/except returns, tail calls, statement calls, *args, expression-bodied
case('''
class K:
    def __init__(self, d, sym):
        self.d, self.sym, self.fn = d, sym, "stored"
    def _current(self):
        if self.sym is None:
            return None
        try:
            cur = self.d[self.sym]
        except KeyError:
            return None
        if isinstance(cur, str) and not cur.startswith("!"):
            return cur
        return None
    def _apply(self, target, args):
        if len(args) != len(target):
            raise RuntimeError(f"bad {len(args)} {len(target)}")
        out = [x * 2 if isinstance(x, int) else x for x in args]
        return (target, out)
    def call(self, *args):
        current = self._current()
        if current is not None:
            return self._apply(current, args)
        return self._apply(self.fn, args)

def run(d, sym, args):
    return K(d, sym).call(*args)
''', [("run", [({"a": "xy"}, "a", (1, 2)), ({"a": "xy"}, "b", (1, 2)), ({"a": "!x"}, "a", (1,) * 6), ({}, None, (1, 2, 3, 4, 5, 6)), ({"a": 5}, "a", (1,)), ({"a": "xyz"}, "a", (1, "q", 3))])])

case('''
def _notify(name, handler, *args):
    if handler is None:
        return
    try:
        handler(*args)
    except Exception as e:
        LOG.append(f"{name}: {e}")

LOG = []

def run(h, a, b):
    LOG.clear()
    _notify("first", h, a)
    _notify("second", h, a, b)
    _notify("none", None, a)
    return list(LOG)

def ok(*xs):
    LOG.append(("ok", xs))

def bad(*xs):
    raise ValueError(len(xs))
''', [("run", [("ok", 1, 2), ("bad", 1, 2), (None, 1, 2)])])

case('''
def _limit(self_usage, claim, mx):
    return self_usage + claim > mx

def _pick(f, fa, arity):
    return ("proj", f, fa, arity) if None in fa else ("call", f, fa, arity)

def run(usage, claim, mx, fa):
    out = []
    while _limit(usage, claim, mx) and usage > 0:
        usage -= 3
        out.append(usage)
    a = _pick("f", fa, len(fa))
    return out, a, not _limit(usage, claim, mx)
''', [("run", [(10, 5, 12, [1, None]), (0, 5, 3, [1, 2]), (9, 1, 100, [])])])

case('''
def helper(x, acc):
    if x < 0:
        acc.append("neg")
        return -1
    if x == 0:
        return 0
    acc.append(x)
    return x * 2

def run(x):
    acc = []
    r = helper(x, acc)
    helper(x - 1, acc)
    return r, acc

def tail(x):
    acc = []
    return helper(x, acc)
''', [("run", [(-2,), (0,), (1,), (5,)]), ("tail", [(-1,), (0,), (3,)])])

# ---- named conditions / named values: must not move reads across mutations
case('''
def run(d, k):
    info = d.get(k)
    has = info is not None
    busy = has and info[0]
    if busy:
        r = "wait"
    else:
        d[k] = (True, 1)
        r = "go"
    applied = not busy
    return r, applied, d.get(k)
''', [("run", [({}, "a"), ({"a": (True, 2)}, "a"), ({"a": (False, 2)}, "a")])])

case('''
def run(xs):
    n = len(xs)
    first = xs[0] if xs else None
    xs.append(99)
    m = len(xs)
    return n, m, first, xs[0]
''', [("run", [([1, 2],), ([],)])])

case('''
class T:
    def __init__(self):
        self.mod = "A"
    def parse(self):
        self.mod = "B"
        return 1
    def go(self):
        before = self.mod
        r = self.parse()
        same = self.mod == before
        return r, same

def run():
    return T().go()
''', [("run", [()])])

case('''
def run(a, b):
    if isinstance(a, dict):
        payload = b[1]
        key = b[0]
        a[key] = payload
        return a
    if isinstance(b, dict):
        if isinstance(a, list) and len(a) == 2:
            payload = a[1]
            key = a[0]
            b[key] = payload
            return b
    return [a, b]
''', [("run", [({}, [1, 2]), ([1, 2], {}), ([1, 2, 3], {}), (1, 2), ({1: 0}, [1, 5])])])

# ---- loops to comprehensions, nested ifs
case('''
def run(syms, ctx):
    saved = {}
    for s in syms:
        saved[s] = ctx[s]
    out = []
    for s in syms:
        if s in saved:
            out.append((s, saved[s]))
    for s in syms:
        ctx[s] = 0
    return saved, out, ctx
''', [("run", [(["a", "b", "a"], {"a": 1, "b": 2}), ([], {})])])

case('''
def run(text):
    i = 0
    chars = []
    while i < len(text):
        c = text[i]
        if c != '"':
            chars.append(c)
            i += 1
            continue
        i += 1
        doubled = i < len(text) and text[i] == '"'
        if not doubled:
            break
        chars.append('"')
        i += 1
    return i, "".join(chars)
''', [("run", [('ab"cd',), ('a""b"c',), ('',), ('"""',)])])

case('''
def run(v, flag):
    stopped = None
    if v is not None:
        v.append("cancelled")
        stopped = 1
    else:
        stopped = 0
    x = (stopped, v) if flag else (v, stopped)
    return x
''', [("run", [([], True), (None, False), ([1], False)])])


# ---- adversarial: a callee changes the object a named value was computed from
case('''
def grow(xs):
    xs.append(1)

class Box:
    def __init__(self):
        self.items = [1]
    def push(self):
        self.items.append(2)

def run(xs):
    n = len(xs)
    first = xs[0] if xs else None
    grow(xs)
    return n, len(xs), first

def run2():
    b = Box()
    items = b.items
    n = len(items)
    b.push()
    return n, len(items)

def run3(d, k):
    e = d.get(k)
    flag = e[0] if e else None
    d[k] = (not flag,)
    return flag, d[k]
''', [("run", [([],), ([5, 6],)]), ("run2", [()]), ("run3", [({"a": (True,)}, "a"), ({}, "a")])])


# ---- context managers written for one purpose
case('''
import contextlib

LOG = []

class _Restore:
    def __init__(self, store, saved):
        self.store = store
        self.saved = saved
    def __enter__(self):
        LOG.append("enter")
        return None
    def __exit__(self, exc_type, exc, tb):
        for k in self.saved:
            out = self.saved[k]
            self.store[k] = out
        LOG.append("exit")
        return False

@contextlib.contextmanager
def _scope(store, key):
    LOG.append("pre")
    store[key] = "tmp"
    try:
        yield key
    finally:
        del store[key]
        LOG.append("post")

@contextlib.contextmanager
def _plain(tag):
    LOG.append(tag)
    yield
    LOG.append(tag + "-done")

def run(fail):
    LOG.clear()
    store = {"a": 1}
    out = []
    try:
        with _Restore(store, {"a": 1}):
            store["a"] = 2
            if fail == 1:
                raise ValueError("x")
        with _scope(store, "h") as k:
            out.append((k, store[k]))
            if fail == 2:
                raise KeyError("y")
        with _plain("p"):
            if fail == 3:
                raise IndexError("z")
        with contextlib.suppress(KeyError, IndexError):
            if fail == 4:
                raise KeyError("w")
            if fail == 5:
                raise ValueError("v")
            out.append("in")
    except Exception as e:
        out.append(type(e).__name__)
    return out, sorted(store.items()), list(LOG)
''', [("run", [(0,), (1,), (2,), (3,), (4,), (5,)])])


# ---- decide / act: a verdict is bound, then tested
case('''
def _put(d, entry_key, entry_val):
    d[entry_key] = entry_val
    return d

def _target(a, b):
    if isinstance(a, dict):
        return a, b
    if isinstance(b, dict) and isinstance(a, list) and len(a) == 2:
        return b, a
    return None

def run(a, b):
    target = _target(a, b)
    if target is not None:
        return _put(target[0], *target[1])
    return [a, b]

def run2(x):
    mode = "none"
    if x > 10:
        mode = "big"
    elif x > 5:
        mode = "mid"
    out = []
    if mode in ("big", "mid"):
        out.append(mode)
    else:
        out.append("small")
    out.append(x)
    return out

def run3(x, log):
    ok = False
    if x:
        log.append("seen")
        ok = True
    if not ok:
        log.append("refused")
        return None
    log.append("done")
    return x
''', [("run", [({}, [1, 2]), ([1, 2], {}), ([1, 2, 3], {}), (1, 2), ({1: 0}, [1, 5])]), ("run2", [(1,), (6,), (11,)]), ("run3", [(0, []), (3, [])])])


# ---- named values over operands that are re-bound elsewhere in the function
case('''
def run(xs):
    out = []
    cur = 0
    for x in xs:
        big = cur > 2
        cur = cur + x
        if big:
            out.append(x)
    return out

def run2(n):
    a = 1
    flag = a == 1
    while a < n:
        if flag:
            a += 2
        else:
            a += 1
    return a, flag

def run3(items):
    aa = items[0] if items else None
    res = []
    while True:
        is_lit = aa == "{"
        if not is_lit and not isinstance(aa, int):
            break
        if is_lit:
            res.append("lit")
        else:
            res.append(aa)
        items = items[1:]
        aa = items[0] if items else None
    return res
''', [("run", [([1, 2, 3, 4],), ([],)]), ("run2", [(6,), (0,)]), ("run3", [(["{", 1, 2, "x"],), ([],), ([3, "{"],)])])


# ---- helper calls in the middle of an expression (hoisting): evaluation order must survive
case('''
def _header(n, log):
    log.append("h")
    size = n * 2
    return [size]

def _tail(log):
    log.append("t")
    x = len(log)
    return [x]

def run(n):
    log = []
    return _header(n, log) + _tail(log) + log

def run2(n):
    log = [7]
    return [log.pop()] + _tail(log) + log

def run3(n):
    log = []
    r = (n, _header(n, log)[0], _tail(log))
    if _tail(log)[0] > 2 and n:
        r = r + (1,)
    return r, log
''', [("run", [(1,), (3,)]), ("run2", [(1,)]), ("run3", [(0,), (2,)])])


# ---- the caller's assignment target shares names with the helper's locals
case('''
def _header(buf):
    ident = buf[:2]
    size = len(buf) - 2
    return ident, size

def run(buf):
    ident, n = _header(buf)
    size = n + 1
    return ident, n, size

def run2(buf):
    size, ident = _header(buf)
    return size, ident
''', [("run", [([1, 2, 3],), ([],)]), ("run2", [([5, 6, 7, 8],)])])


# ---- polymorphic dispatch under an isinstance guard; static helper on a class
case('''
class Get:
    def __init__(self, k):
        self.k = k
    def execute(self, store):
        v = store[self.k]
        if isinstance(v, list):
            v = v[0]
        return v

class Put:
    def __init__(self, k, v):
        self.k, self.v = k, v
    def execute(self, store):
        store[self.k] = self.v
        return None

class Base:
    def run(self, store):
        return "base"

class Derived(Base):
    def run(self, store):
        return "derived"

class Ref:
    def __init__(self, n):
        self.n = n
    @staticmethod
    def wrap(v):
        if isinstance(v, int):
            return ("ref", v)
        return v

_KINDS = (Get, Put)

def run(kind, k, v):
    store = {"a": [1, 2], "b": 5}
    cmd = Get(k) if kind == "get" else Put(k, v) if kind == "put" else Derived() if kind == "d" else Base() if kind == "b" else kind
    if isinstance(cmd, _KINDS):
        r = cmd.execute(store)
    elif isinstance(cmd, Base):
        r = cmd.run(store)
    else:
        r = str(cmd)
    r = Ref.wrap(r)
    return r, sorted(store.items())
''', [("run", [("get", "a", 0), ("get", "b", 0), ("get", "zz", 0), ("put", "c", 9), ("d", 0, 0), ("b", 0, 0), ("other", 0, 0)])])


# ---- a helper name that does not denote one function (conditional definitions, aliases) must be left alone
case('''
def run(n, x):
    if n == 0:
        def first(v):
            return ("soon", v)
        nxt = first
    else:
        def first(v):
            return ("at", v + n)

        def nxt(v):
            return ("later", v * n)
    return first(x), nxt(x)

def pick(x):
    return ("a", x)

if len("ab") == 2:
    def pick(x):
        return ("b", x)

def run2(x):
    return pick(x)
''', [("run", [(0, 1), (2, 5)]), ("run2", [(1,)])])


# ---- methods: an overridden method is a virtual call (never inlined); an inherited, never overridden one is a helper
case('''
class Base:
    def describe(self):
        return "I am " + self._kind()
    def _kind(self):
        return "base"

class Child(Base):
    def _kind(self):
        return "child"

class Plain(Base):
    pass

class Store:
    @staticmethod
    def _check(x):
        if not isinstance(x, str):
            raise TypeError("key must be a str")
    def _norm(self, x):
        y = x.strip()
        return y.upper()

class KV(Store):
    def get(self, x):
        self._check(x)
        k = self._norm(x)
        return k

def run(k):
    obj = Child() if k else Plain()
    return obj.describe()

def run2(x):
    return KV().get(x)
''', [("run", [(0,), (1,)]), ("run2", [(" ab ",), (5,)])])


# ---- helper ending in a with block that is left by return
case('''
import contextlib

LOG = []

def opened(tag):
    LOG.append("open " + tag)
    return contextlib.nullcontext(LOG)

def _store(tag, data, sync):
    with opened(tag) as f:
        f.append(data)
        if not sync:
            return
        f.append("flush")
        f.append("fsync")

def _fetch(tag, want):
    with opened(tag) as f:
        if want:
            return len(f)
        f.append("nothing")

def run(sync):
    LOG.clear()
    _store("a", "payload", sync)
    n = _fetch("b", sync)
    return n, list(LOG)
''', [("run", [(True,), (False,)])])


# ---- exception-aware __exit__; awaited expression-bodied async helper
case('''
import asyncio

LOG = []

class Closed(Exception):
    pass

class Failure(Exception):
    pass

class _ClosedAsFailure:
    def __enter__(self):
        return self
    def __exit__(self, exc_type, exc, tb):
        if exc_type is None:
            return False
        if issubclass(exc_type, Closed):
            LOG.append("closed")
            raise Failure()
        return False

class _Quiet:
    def __init__(self, kinds):
        self.kinds = kinds
    def __enter__(self):
        return None
    def __exit__(self, exc_type, exc, tb):
        if exc_type is not None and issubclass(exc_type, self.kinds):
            LOG.append("swallowed " + type(exc).__name__)
            return True
        return False

class Conn:
    def __init__(self, script):
        self.script = list(script)
    async def recv(self):
        x = self.script.pop(0)
        if x == "closed":
            raise Closed()
        if x == "boom":
            raise ValueError("boom")
        return x
    async def _decoded(self):
        return ("msg", await self.recv())
    async def listen(self):
        with _ClosedAsFailure():
            m = await self._decoded()
            LOG.append(m)
        with _Quiet((ValueError, KeyError)):
            n = await self._decoded()
            LOG.append(n)
            return "returned inside"
        return "after"

def run(script):
    LOG.clear()
    try:
        r = asyncio.run(Conn(script).listen())
    except Exception as e:
        r = "raised " + type(e).__name__ + " ctx " + type(e.__context__).__name__
    return r, list(LOG)
''', [("run", [(["a", "b"],), (["closed"],), (["boom"],), (["a", "boom"],), (["a", "closed"],)])])


# ---- loops over small literal collections
case('''
def run(store, s, orig, t):
    saved = {s: orig, t: 0}
    out = []
    try:
        store[s] = "tmp"
        out.append(store[s])
    finally:
        for k, v in saved.items():
            store[k] = v
            out.append(k)
    for name in (s, t):
        out.append(store[name])
    one = {s: orig}
    for k, v in one.items():
        out.append((k, v))
    return out, sorted(store.items())

def run2(store, s):
    saved = {s: 1}
    saved[s] = 2
    for k, v in saved.items():
        store[k] = v
    pairs = [(s, 5)]
    for k, v in pairs:
        s = v
    return sorted(store.items()), s
''', [("run", [({"a": 1}, "a", 1, "b"), ({}, "x", None, "x")]), ("run2", [({}, "q")])])


# ---- classify, then dispatch through a table of small functions
case('''
_PUNCT = (';', '(', ')')
scale = 10

def _kind(t, i, a):
    if a in _PUNCT:
        return 'punct'
    if a.isdigit():
        return 'num'
    if a == ':' and i + 1 < len(t):
        b = t[i + 1]
        if b.isalpha():
            return 'sym'
        if b == '[':
            return 'open'
        return 'colon-op'
    return 'op'

def _read_num(t, i, a, flag):
    j = i
    while j < len(t) and t[j].isdigit():
        j += 1
    return j, int(t[i:j]) * scale

_READERS = {
    'punct': lambda t, i, a, flag: (i + 1, a),
    'num': _read_num,
    'sym': lambda t, i, a, flag: (i + 2, ("sym", t[i + 1], flag)),
    'open': lambda t, i, a, flag: (i + 2, ':['),
    'colon-op': lambda t, i, a, flag: (i + 2, ("op", t[i:i + 2])),
    'op': lambda t, i, a, flag: (i + 1, ("op", a, scale)),
}

def read(t, i, flag=False):
    a = t[i]
    kind = _kind(t, i, a)
    return _READERS[kind](t, i, a, flag)

def _times(x):
    return x * scale

def _times2(x):
    y = x + 1
    return y * scale

def capture(x):
    scale = 2
    return _times(x) + _times2(x) + scale

def read_shadow(t, i):
    scale = 3
    a = t[i]
    kind = _kind(t, i, a)
    return _READERS[kind](t, i, a, scale)
''', [("read", [(";x", 0), ("12+", 0), (":ab", 0), (":[", 0), (":+", 0), ("+", 0), (":", 0)]), ("read_shadow", [("+", 0), ("7", 0)]), ("capture", [(1,), (5,)])])


# ---- a decision stored as a module-level table of literals
case('''
_ARITH = {'+', '-', '*'}
_CMP = {'=', '<'}
_KIND = {**{op: 'binop' for op in _ARITH}, **{op: 'cmp' for op in _CMP}}
_PRIO = {'+': 1, '-': 1, '*': 2}

class Node:
    def __init__(self, op):
        self.op = op

def build(node, l, r):
    kind = _KIND.get(node.op)
    if kind is None:
        return None
    return (kind, node.op, l, r)

def prio(op):
    p = _PRIO[op]
    return p * 10

def run(op):
    try:
        pr = prio(op)
    except KeyError as e:
        pr = "KeyError " + str(e)
    except TypeError as e:
        pr = "TypeError"
    try:
        b = build(Node(op), 1, 2)
    except TypeError:
        b = "TypeError"
    return b, pr
''', [("run", [('+',), ('*',), ('=',), ('<',), ('?',), (None,), (5,), ([],)])])


# ---- closure factories: what the factory's parameters were bound to must stay bound (no late binding)
case('''
def _make(fn, route):
    """Build the handler of one route."""
    def handler(request):
        return (route, fn(request))
    return handler

class App:
    def __init__(self):
        self.routes = []
    def add(self, route, h):
        self.routes.append((route, h))

def run(items):
    app = App()
    for route, k in items:
        fn = (lambda r, k=k: r * k)
        app.add(route, _make(fn, route))
    route = "clobbered"
    fn = None
    return [(r, h(10)) for r, h in app.routes]
''', [("run", [([("a", 1), ("b", 2), ("c", 3)],), ([],)])])


# ---- an object standing in for a closure (callable object with state in attributes)
case('''
class _Runner:
    """tick: call back and re-arm"""
    def __init__(self, loop, interval, start, callback):
        self.loop = loop
        self.interval = interval
        self.start = start
        self.callback = callback

    def arm(self, handle):
        if self.interval == 0:
            handle["delegate"] = self.loop.soon(self, handle)
        else:
            handle["delegate"] = self.loop.at(self.start + self.interval, self, handle)

    def __call__(self, handle):
        r = self.callback()
        if r and handle["delegate"] is not None:
            handle["delegate"] = self.loop.at(self.interval, self, handle)
        else:
            handle["delegate"] = None

class _Counter:
    def __init__(self, n):
        self.n = n
    def bump(self):
        self.n += 1
        return self.n

class Loop:
    def __init__(self):
        self.q = []
    def soon(self, f, h):
        self.q.append((0, f, h)); return len(self.q)
    def at(self, when, f, h):
        self.q.append((when, f, h)); return len(self.q)

def run(interval, results):
    loop = Loop()
    results = list(results)
    start = 100
    handle = {"delegate": None}
    _Runner(loop, interval, start, lambda: results.pop(0) if results else 0).arm(handle)
    start = -1
    log = []
    while loop.q and len(log) < 10:
        when, f, h = loop.q.pop(0)
        log.append(when)
        f(h)
    return log, handle

def run2():
    c = _Counter(5)
    return c.bump(), c.bump()
''', [("run", [(0, [1, 1, 0]), (7, [1, 0]), (3, [])]), ("run2", [()])])


# ---- new base classes / mixins: copied down only where the copy wins exactly where the base won
case('''
class _IndexMixin:
    def has_index(self):
        return self.idx is not None
    def set_index(self, cols):
        self.idx = list(cols)
        return self.describe()

class Table(_IndexMixin, dict):
    def __init__(self):
        self.idx = None
    def describe(self):
        return ("table", self.idx, self.has_index())

class _GetLast:
    def get(self, k, default=None):
        return ("mixin-get", k)

class Store(dict, _GetLast):
    pass

class _Counted:
    def bump(self):
        self.n = getattr(self, "n", 0) + 1
        return self.n

class A(_Counted):
    pass

class B(_Counted):
    def bump(self):
        return -1

class _Base:
    def who(self):
        return "base"

class Child(_Base):
    def who(self):
        return "child+" + super().who()

class _Shape:
    def area(self):
        return 0

class Sq(_Shape):
    def area(self):
        return 4

def run():
    t = Table()
    r1 = (t.has_index(), t.set_index(["a"]), isinstance(t, dict))
    s = Store(); s["k"] = 1
    r2 = (s.get("k"), s.get("zz"))
    a, b = A(), B()
    r3 = (a.bump(), a.bump(), b.bump())
    r4 = Child().who()
    r5 = (Sq().area(), isinstance(Sq(), _Shape))
    return r1, r2, r3, r4, r5
''', [("run", [()])])


# ---- new wrapping decorators and read-only properties
case('''
import functools

LOG = []

class Lock:
    def __init__(self):
        self.held = 0
    def __enter__(self):
        self.held += 1
        LOG.append("acquire")
    def __exit__(self, *a):
        self.held -= 1
        LOG.append("release")
        return False
    def locked(self):
        return self.held > 0

def _holding(method):
    """run under the lock"""
    @functools.wraps(method)
    def locked_method(self, *args, **kwargs):
        with self.lock:
            return method(self, *args, **kwargs)
    return locked_method

def _requires(method):
    @functools.wraps(method)
    def checked(self, *args, **kwargs):
        assert self.lock.locked(), "lock not held"
        return method(self, *args, **kwargs)
    return checked

def _counting(method):
    @functools.wraps(method)
    def w(self, *args, **kwargs):
        r = method(self, *args, **kwargs)
        LOG.append(("called", len(args)))
        return r
    return w

class Cache:
    def __init__(self):
        self.lock = Lock()
        self.items = {}

    @property
    def _size(self):
        LOG.append("size")
        return len(self.items)

    @_holding
    def put(self, k, v=1):
        """store"""
        self._insert(k, v)
        if k == "boom":
            raise KeyError(k)
        return self._size

    @_requires
    def _insert(self, k, v):
        self.items[k] = v

    @_counting
    def peek(self, k):
        return self.items.get(k)

def run(keys):
    LOG.clear()
    c = Cache()
    out = []
    for k in keys:
        try:
            out.append(c.put(k, v=len(k)))
        except KeyError as e:
            out.append("KeyError")
    try:
        c._insert("x", 0)
    except AssertionError as e:
        out.append("assert " + str(e))
    out.append(c.peek("a"))
    return out, list(LOG), c.put.__name__
''', [("run", [(["a", "bb"],), (["boom", "a"],), ([],)])])


# ---- a generator helper consumed by a for loop
case('''
import heapq

class Cache:
    def __init__(self, items, limit):
        self.heap = list(items)
        heapq.heapify(self.heap)
        self.usage = sum(s for s, _n, _w in self.heap)
        self.limit = limit
        self.log = []

    def _candidates(self, claim):
        """oldest first, while the claim does not fit; writers are put back afterwards"""
        writing = []
        while self.heap and self.usage + claim > self.limit:
            size, name, w = heapq.heappop(self.heap)
            if w:
                writing.append((size, name, w))
            else:
                yield size, name
        for rec in writing:
            heapq.heappush(self.heap, rec)

    def recover(self, claim):
        for size, name in self._candidates(claim):
            self.usage -= size
            self.log.append(name)
        return self.usage + claim <= self.limit

def run(items, limit, claim):
    c = Cache(items, limit)
    ok = c.recover(claim)
    return ok, c.log, sorted(c.heap), c.usage
''', [("run", [([(5, "a", False), (3, "b", True), (4, "c", False)], 10, 4), ([(5, "a", True)], 4, 2), ([], 3, 1), ([(1, "a", False), (2, "b", False)], 10, 1)])])


# ---- a record type that is a tuple with named fields
case('''
from typing import Any, NamedTuple

class Entry(NamedTuple):
    """(writing, size, future)"""
    writing: bool
    size: Any
    future: Any

class Other:
    def __init__(self):
        self.size = 7

def run(n):
    table = {}
    table["a"] = Entry(writing=False, size=n, future="f")
    table["b"] = Entry(True, n + 1, None)
    info = table.get("a")
    total = 0
    if info is not None and not info.writing:
        total += info.size
    w, s, f = table["b"]
    return total, table["b"].writing, info.future, (w, s, f), table["a"] == (False, n, "f"), table["a"][1]
''', [("run", [(3,), (0,)])])


case('''
from typing import Any, NamedTuple

class Entry(NamedTuple):
    writing: bool
    size: Any
    future: Any

def run(n):
    table = {}
    log = []
    def note(x):
        log.append(x)
        return x
    table["a"] = Entry(writing=False, size=n, future="f")
    table["b"] = Entry(True, n + 1, None)
    fu, wr, sz = note("fut"), note(True), note(1)
    table["c"] = Entry(future=fu, writing=wr, size=sz)
    info = table.get("a")
    total = 0
    if info is not None and not info.writing:
        total += info.size
    w, s, f = table["b"]
    return total, table["b"].writing, info.future, (w, s, f), table["a"] == (False, n, "f"), table["a"][1], log, tuple(table["c"])
''', [("run", [(3,), (0,)])])


# ---- a dict subclass that only adds helper methods
case('''
class Pending(dict):
    """msg id -> slot"""
    def register(self, maker, key):
        slot = maker()
        self[key] = slot
        return slot

    def resolve(self, key, value):
        if key not in self:
            return False
        slot = self.pop(key)
        slot.append(value)
        return True

    def fail_all(self, err):
        for slot in self.values():
            slot.append(err)
        self.clear()

class Client:
    def __init__(self):
        self.pending = Pending()
        self.log = []

    def call(self, key):
        return self.pending.register(list, key)

    def on_message(self, key, value):
        if self.pending.resolve(key, value):
            if value == "close":
                self.log.append("closing")
                raise ConnectionError("closed")
        elif value == "ping":
            self.log.append("pong")
        else:
            self.log.append(("request", value))

    def cleanup(self, err):
        self.pending.fail_all(err)

def run(script):
    c = Client()
    slots = {k: c.call(k) for k in ("a", "b", "c")}
    out = []
    for key, value in script:
        try:
            c.on_message(key, value)
        except ConnectionError as e:
            out.append(str(e))
    c.cleanup("lost")
    return out, c.log, slots, dict(c.pending), type(c.pending).__mro__[-2].__name__
''', [("run", [([("a", 1), ("zz", "ping"), ("b", "close"), ("q", 7)],), ([],)])])


# ---- a function chosen by a conditional expression, then called
case('''
LOG = []

def _force(f):
    LOG.append("flush")
    LOG.append("fsync")

def _leave(f):
    LOG.append("left to the os")

class T:
    def __init__(self, idx):
        self.idx = idx
        self.buf = []
        self.rows = []
    def _by_index(self, rows):
        for r in rows:
            self.rows.insert(0, r)
    def _by_pos(self, rows):
        self.rows = self.rows + list(rows)
    def commit(self):
        if self.buf:
            flush = self._by_index if self.idx else self._by_pos
            flush(self.buf)
            self.buf = []

def run(sync, idx):
    LOG.clear()
    settle = _force if sync else _leave
    LOG.append("write")
    settle("f")
    t = T(idx)
    t.commit()
    t.buf = [1, 2]
    t.commit()
    return list(LOG), t.rows, t.buf
''', [("run", [(True, True), (False, False), (0, 1)])])


# ---- a new base class holding the state set-up: super().__init__(..) in the subclass initialiser
case('''
class _Ledger:
    """book-keeping half"""
    def __init__(self, limit=None):
        self.limit = limit or 100
        self.used = 0
        self.entries = {}

    def charge(self, k, n):
        self.entries[k] = n
        self.used += n
        return self.fits()

class Cache(_Ledger):
    def __init__(self, limit=None, root="r"):
        self.root = root
        super().__init__(limit=limit)
        self.log = [self.limit]

    def fits(self):
        return self.used <= self.limit

class Small(Cache):
    def __init__(self):
        super().__init__(limit=5, root="s")

def run(limit, n):
    c = Cache(limit)
    ok = c.charge("a", n)
    s = Small()
    return ok, c.used, c.limit, c.root, c.log, s.charge("z", 9), s.root, isinstance(s, Cache)
''', [("run", [(None, 7), (3, 7)])])


# ---- defaults are bound when the helper is defined, not when it is called
case('''
def run(routes):
    out = []
    handlers = []
    for route in routes:
        def _log(e, route=route):
            out.append((route, e))
        def handler(x, fn=len):
            try:
                return fn(x)
            except Exception as e:
                _log(type(e).__name__)
                return -1
        handlers.append(handler)
    route = "late"
    res = [h(None) for h in handlers] + [h("ab") for h in handlers]
    return res, out

def _acc(x, bucket=[]):
    bucket.append(x)
    return len(bucket)

def run2():
    return _acc(1), _acc(2), _acc(3)
''', [("run", [(["a", "b"],), ([],)]), ("run2", [()])])


# ---- decorator factories with fixed-parameter (async) wrappers: arguments stay bound to what they were at decoration time
case('''
import asyncio

def _answer_on_failure(log_failure):
    """report and answer 400"""
    def decorate(handler):
        async def contained(request):
            try:
                return await handler(request)
            except Exception as e:
                log_failure(e)
                return ("400", str(request))
        return contained
    return decorate

def _twice(handler):
    def w(x):
        return handler(x) * 2
    return w

def run(routes, reqs):
    out = []
    handlers = {}
    for route in routes:
        def _log(e, route=route):
            out.append((route, type(e).__name__))

        @_answer_on_failure(_log)
        async def _get(request, fn=len):
            assert request is not None
            return ("200", fn(request))
        handlers[route] = _get
    route = "late"

    @_twice
    def dbl(x):
        return x + 1
    res = [asyncio.run(handlers[r](q)) for r, q in reqs]
    return res, out, dbl(3)
''', [("run", [(["a", "b"], [("a", "xy"), ("b", None), ("a", 5), ("b", "zzz")]), ([], [])])])


# ---- a small record object that does not leave the function; an alternative constructor
case('''
LOG = []

class Loop:
    def __init__(self, name):
        self.name = name
    def soon(self, f, *a):
        LOG.append((self.name, f.__name__, a))
        f(*a)

class Fut:
    def __init__(self):
        self.v = None
    def set_result(self, x):
        self.v = ("ok", x)
    def set_exception(self, x):
        self.v = ("exc", x)

class _Reply:
    """answer awaited on one loop, produced on another"""
    def __init__(self, loop, future):
        self.loop = loop
        self.future = future

    @classmethod
    def awaited_here(cls):
        future = Fut()
        return cls(Loop("here"), future)

    def resolve(self, response):
        self.loop.soon(self.future.set_result, response)

    def reject(self, error):
        self.loop.soon(self.future.set_exception, error)

def execute(loop, fut, cmd):
    reply = _Reply(loop, fut)
    try:
        if cmd == "boom":
            raise KeyError(cmd)
        reply.resolve(cmd.upper())
    except KeyError as e:
        reply.reject("not found " + str(e))

def run(cmd):
    LOG.clear()
    reply = _Reply.awaited_here()
    assert reply.loop is not None
    execute(reply.loop, reply.future, cmd)
    return reply.future.v, list(LOG)
''', [("run", [("abc",), ("boom",)])])


# ---- a method of the same name on an object of ANOTHER type must be left alone
case('''
class Other:
    def __init__(self):
        self.got = []
    def resolve(self, x):
        self.got.append(("other", x))
        return len(self.got)
    def register(self, f, k):
        self.got.append(("reg", k))
        return f()

class _Reply:
    def __init__(self, sink):
        self.sink = sink
    def resolve(self, x):
        self.sink.append(("reply", x))

class Table(dict):
    def register(self, make, key):
        slot = make()
        self[key] = slot
        return slot

class Owner:
    def __init__(self):
        self.table = Table()
        self.other = Other()
    def go(self, k):
        a = self.table.register(list, k)
        b = self.other.register(list, k)
        return a, b, sorted(self.table), self.other.got

def run(x):
    sink = []
    r = _Reply(sink)
    o = Other()
    r.resolve(x)
    n = o.resolve(x)
    for q in (o, Other()):
        q.resolve(x + 1)
    return sink, o.got, n, Owner().go("k")
''', [("run", [(1,), (5,)])])


def outcome(ns, fn, args):
    import copy
    try:
        a = copy.deepcopy(args)
        a = tuple(ns[x] if isinstance(x, str) and x in ("ok", "bad") else x for x in a)
        return ("ok", repr(ns[fn](*a)))
    except Exception as e:          # noqa: BLE001
        return ("exc", type(e).__name__, str(e))


def main():
    inv_backup = N._INV
    N._INV = set()                  # every function of a synthetic module is a 'new helper'
    bad = 0
    total = 0
    try:
        for k, (src, calls) in enumerate(CASES):
            t0 = ast.parse(src)
            t1 = ast.parse(src)
            flat = N.flatten_new_bases(f"case{k}", t1, set())
            stats = N.normalize(f"case{k}", t1)
            stats["flattened_bases"] = flat
            ast.fix_missing_locations(t1)
            try:
                code1 = compile(t1, f"<case{k} normalised>", "exec")
            except Exception as e:          # noqa: BLE001
                print(f"case {k}: normal form does not compile: {e}\n{ast.unparse(t1)}")
                bad += 1
                continue
            for fn, arglists in calls:
                for args in arglists:
                    ns0, ns1 = {}, {}
                    exec(compile(t0, f"<case{k}>", "exec"), ns0)
                    exec(code1, ns1)
                    r0, r1 = outcome(ns0, fn, args), outcome(ns1, fn, args)
                    total += 1
                    if r0 != r1:
                        bad += 1
                        print(f"case {k} {fn}{args}: original {r0} != normalised {r1}\n--- normal form ---\n{ast.unparse(t1)}")
            print(f"case {k}: {stats}")
    finally:
        N._INV = inv_backup
    print(f"{len(CASES)} synthetic modules, {total} executions compared, {bad} disagreement(s)")
    return 1 if bad else 0


if __name__ == "__main__":
    sys.exit(main())
