#!/venv/bin/python
"""tools/own_matrix.py [root=/verif/seeded] — fast variant of the matrices: every stored change against the check of ITS OWN
property only (scratch copy of /repo/klongpy with the patch applied).  Faults: VIOLATION / ERR / - ; refactorings should be '-'."""
import os, subprocess, sys, tempfile, shutil
from concurrent.futures import ThreadPoolExecutor
VERIF = os.path.dirname(os.path.dirname(os.path.abspath(__file__)))
args = [a for a in sys.argv[1:] if not a.startswith("--")]
root = os.path.abspath(args[0]) if args else os.path.join(VERIF, "seeded")
items = sorted(os.path.join(root, p, k) for p in sorted(os.listdir(root)) if os.path.isdir(os.path.join(root, p)) for k in os.listdir(os.path.join(root, p))
               if os.path.exists(os.path.join(root, p, k, "patch.diff")))


def run(seed):
    d = tempfile.mkdtemp(prefix="vr.")
    try:
        shutil.copytree("/repo/klongpy", os.path.join(d, "klongpy"))
        if subprocess.run(["patch", "-p1", "-s", "-i", os.path.join(seed, "patch.diff")], cwd=d, capture_output=True).returncode != 0:
            return seed, "APPLY-FAILED"
        own = seed.split("/")[-2]
        r = subprocess.run([os.path.join(VERIF, "vcheck"), own, "quick"], capture_output=True, text=True, env=dict(os.environ, VERIF_REPO=d, VERIF_EVIDENCE_DIR=os.path.join(d, "ev")))
        v = sum(l.startswith("VIOLATION") for l in r.stdout.splitlines())
        e = sum(l.startswith("ANALYSIS-ERROR") for l in r.stdout.splitlines())
        return seed, ("VIOLATION" if v else "ERR" if e else "-")
    finally:
        shutil.rmtree(d, ignore_errors=True)


with ThreadPoolExecutor(max_workers=14) as ex:
    res = list(ex.map(run, items))
for s, v in res:
    print("/".join(s.split("/")[-2:]), v)
n = len(res)
print(f"{n} changes: {sum(v == 'VIOLATION' for _s, v in res)} VIOLATION, {sum(v == 'ERR' for _s, v in res)} ERR only, {sum(v == '-' for _s, v in res)} silent")
