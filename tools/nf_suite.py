#!/venv/bin/python
"""tools/nf_suite.py [patch.diff ...] — development-time validation of the normaliser (NOT a property check, never registered in
MANIFEST): write the NORMAL FORM of every klongpy module (optionally with a refactoring patch applied first) into a scratch copy of
the repository and run the project's test suite on it.  A normaliser rewrite that changes behaviour shows up as a failing test."""
import ast, os, shutil, subprocess, sys, tempfile
from concurrent.futures import ThreadPoolExecutor
VERIF = os.path.dirname(os.path.dirname(os.path.abspath(__file__)))
sys.path.insert(0, VERIF)


def run(patch):
    d = tempfile.mkdtemp(prefix="nfs.")
    try:
        subprocess.run(["rsync", "-a", "--exclude", ".git", "/repo/", d + "/"], check=True)
        if patch:
            r = subprocess.run(["patch", "-p1", "-s", "-i", patch], cwd=d, capture_output=True, text=True)
            if r.returncode:
                return patch, "APPLY-FAILED"
        code = ("import sys, ast, os; sys.path.insert(0, %r)\n"
                "from sa.model import Repo\n"
                "r = Repo(%r)\n"
                "n = 0\n"
                "for m in r.modules.values():\n"
                "    src = ast.unparse(m.tree)\n"
                "    compile(src, m.path, 'exec')\n"
                "    open(m.path, 'w').write(src + '\\n'); n += 1\n"
                "print(n)\n") % (VERIF, d)
        r = subprocess.run(["/venv/bin/python", "-c", code], capture_output=True, text=True)
        if r.returncode:
            return patch, "NORMALISE-FAILED " + r.stderr[-400:]
        r = subprocess.run(["/venv/bin/python", "-m", "pytest", "-q", "-p", "no:cacheprovider", "--timeout=900"] + os.environ.get("NF_TESTS", "").split(), cwd=d, capture_output=True, text=True,
                           env=dict(os.environ, PYTHONDONTWRITEBYTECODE="1"))
        tail = [l for l in r.stdout.splitlines() if " passed" in l or " failed" in l or " error" in l][-1:] or [r.stdout[-200:]]
        # a seeded fault comes with a demonstration: it must still FAIL on the normal form of the faulty tree (the normaliser must not
        # repair or mask what was broken) - run with NF_DEMO=1
        demo = os.path.join(os.path.dirname(patch), "demo.py") if patch else None
        if os.environ.get("NF_DEMO") and demo and os.path.exists(demo):
            try:
                rd = subprocess.run(["/venv/bin/python", demo], cwd=d, capture_output=True, text=True, timeout=300, env=dict(os.environ, PYTHONDONTWRITEBYTECODE="1"))
                tail[0] += f" | demo rc={rd.returncode}"
            except subprocess.TimeoutExpired:
                tail[0] += " | demo rc=TIMEOUT"
        fails = [l for l in r.stdout.splitlines() if l.startswith("FAILED") or l.startswith("ERROR")][:5]
        return patch, tail[0] + (" | " + " ; ".join(fails) if fails else "")
    finally:
        shutil.rmtree(d, ignore_errors=True)


if __name__ == "__main__":
    patches = sys.argv[1:] or [None]
    with ThreadPoolExecutor(max_workers=int(os.environ.get("VERIF_JOBS", "4"))) as ex:
        for p, res in ex.map(run, patches):
            print(f"{p or '<pinned tree>'}: {res}", flush=True)
