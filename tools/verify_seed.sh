#!/bin/sh
# tools/verify_seed.sh <seed dir with patch.diff demo.py> <tag>
# confirms in a scratch worktree of /repo HEAD: demo passes clean, fails patched, whole suite passes patched.
# prints one line: <tag> clean=<rc> patched=<rc> suite=<summary>
D=$(readlink -f "$1"); TAG=$2
W=/tmp/vs/$TAG
rm -rf "$W"; git -C /repo worktree add -q --detach "$W" HEAD || exit 9
cd "$W"
timeout 300 /venv/bin/python "$D/demo.py" >"$W.clean.log" 2>&1; c=$?
if ! git apply "$D/patch.diff" 2>"$W.apply.log"; then echo "$TAG APPLY-FAILED"; cd /; git -C /repo worktree remove --force "$W"; exit 3; fi
timeout 300 /venv/bin/python "$D/demo.py" >"$W.patched.log" 2>&1; p=$?
s=$(timeout 1500 /venv/bin/python -m pytest -q -p no:cacheprovider --timeout=900 2>&1 | grep -E "passed|failed" | tail -1)
case "$s" in *failed*) s2=$(timeout 1500 /venv/bin/python -m pytest -q -p no:cacheprovider --timeout=900 2>&1 | grep -E "passed|failed" | tail -1); s="$s || rerun: $s2";; esac
echo "$TAG clean=$c patched=$p suite=[$s]"
cd /; git -C /repo worktree remove --force "$W"; rm -f "$W".*.log
