#!/venv/bin/python
"""tools/seed_matrix.py [seed root=/verif/seeded] — run every registered check against every seeded change
(scratch copy of /repo/klongpy with the patch applied; /repo itself is never touched) and print which checks fire."""
import json, os, subprocess, sys, tempfile, shutil
from concurrent.futures import ThreadPoolExecutor

VERIF = os.path.dirname(os.path.dirname(os.path.abspath(__file__)))
root = sys.argv[1] if len(sys.argv) > 1 else os.path.join(VERIF, "seeded")
checks = [c["property_id"] for c in json.load(open(os.path.join(VERIF, "MANIFEST.json")))["checks"]]
seeds = sorted(d for d in (os.path.join(root, p, k) for p in sorted(os.listdir(root)) if os.path.isdir(os.path.join(root, p)) for k in sorted(os.listdir(os.path.join(root, p)))) if os.path.exists(os.path.join(d, "patch.diff")))


def run(seed):
    d = tempfile.mkdtemp(prefix="vr.")
    try:
        shutil.copytree("/repo/klongpy", os.path.join(d, "klongpy"))
        r = subprocess.run(["patch", "-p1", "-s", "-i", os.path.join(seed, "patch.diff")], cwd=d, capture_output=True, text=True)
        if r.returncode != 0:
            return seed, {"_apply": "FAILED"}
        out = {}
        for c in checks:
            env = dict(os.environ, VERIF_REPO=d, VERIF_EVIDENCE_DIR=os.path.join(d, "ev"))
            r = subprocess.run([os.path.join(VERIF, "vcheck"), c, "quick"], capture_output=True, text=True, env=env)
            v = sum(1 for l in r.stdout.splitlines() if l.startswith("VIOLATION"))
            e = sum(1 for l in r.stdout.splitlines() if l.startswith("ANALYSIS-ERROR"))
            if v or e:
                rules = sorted({l.split(" ")[2] for l in r.stdout.splitlines() if l.startswith("/") and " C" in l and len(l.split(" ")) > 2})
                out[c] = {"violations": v, "errors": e, "rules": rules}
        return seed, out
    finally:
        shutil.rmtree(d, ignore_errors=True)


with ThreadPoolExecutor(max_workers=8) as ex:
    res = list(ex.map(run, seeds))
table = {}
for seed, out in res:
    tag = "/".join(seed.split("/")[-2:])
    own = tag.split("/")[0]
    fired = ", ".join(f"{c}[{','.join(o['rules']) or ('ERR' if o['errors'] else '')}]" for c, o in out.items() if c != "_apply") or "-"
    caught_own = own in out and out[own].get("violations", 0) > 0
    print(f"{tag:8s} own-check={'CAUGHT' if caught_own else 'missed'}  fired: {fired}")
    table[tag] = {"caught_by_own_check": caught_own, "fired": out}
out_name = "MATRIX.json" if os.path.abspath(root) == os.path.join(VERIF, "seeded") else "MATRIX.json"
json.dump(table, open(os.path.join(root, out_name), "w"), indent=1)
