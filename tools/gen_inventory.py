#!/venv/bin/python
"""tools/gen_inventory.py — write sa/inventory.json: every function (module:qualname) of the tree the rules were confirmed on.
Functions that are not in this list are 'new helpers' for the normaliser (sa/normalize.py, pass N1) and are inlined at
their call sites where that is possible.  Re-run after a reviewed change of /repo that adds functions (e.g. a fix: commit)."""
import json, os, sys
sys.path.insert(0, os.path.dirname(os.path.dirname(os.path.abspath(__file__))))
from sa.model import Repo
r = Repo(sys.argv[1] if len(sys.argv) > 1 else "/repo")
inv = sorted(f.fq for f in r.all_funcs())
json.dump(inv, open(os.path.join(os.path.dirname(os.path.dirname(os.path.abspath(__file__))), "sa", "inventory.json"), "w"), indent=0)
print(len(inv), "functions")
