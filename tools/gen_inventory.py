#!/venv/bin/python
"""tools/gen_inventory.py — write sa/inventory.json: the functions (module:qualname, with a fingerprint: parameter count and the
names they call / attributes they touch) and the self attributes per class of the tree the rules were confirmed on.
The normaliser (sa/normalize.py) uses it to tell NEW helpers (inlined at their call sites, pass N1) from RENAMED functions and
attributes (renamed back, pass N0).  Re-run after a reviewed change of /repo that adds or renames functions (e.g. a fix: commit)."""
import ast, json, os, sys, warnings
sys.path.insert(0, os.path.dirname(os.path.dirname(os.path.abspath(__file__))))
from sa import normalize as N
root = sys.argv[1] if len(sys.argv) > 1 else "/repo"
pkg = os.path.join(root, "klongpy")
trees = {}
for dp, dn, fn in sorted(os.walk(pkg)):
    dn.sort()
    if "__pycache__" in dp:
        continue
    for f in sorted(fn):
        if f.endswith(".py"):
            path = os.path.join(dp, f)
            with warnings.catch_warnings():
                warnings.simplefilter("ignore")
                trees[os.path.relpath(path, pkg)[:-3]] = ast.parse(open(path, encoding="utf-8").read())
funcs, attrs = N.scan(trees)
inv = {"functions": {}, "attrs": {k: sorted(v) for k, v in sorted(attrs.items())}}
for fq, node in sorted(funcs.items()):
    inv["functions"][fq] = N.fingerprint(node)
    # nested functions: qualified by the chain of enclosing functions (as sa/model.py names them)
    def nested(fn, prefix):
        def rec(n):
            for c in ast.iter_child_nodes(n):
                if isinstance(c, (ast.FunctionDef, ast.AsyncFunctionDef)):
                    inv["functions"][prefix + "." + c.name] = N.fingerprint(c)
                    nested(c, prefix + "." + c.name)
                elif isinstance(c, (ast.ClassDef, ast.Lambda)):
                    continue
                else:
                    rec(c)
        rec(fn)
    nested(node, fq)
# every top-level binding by def / class per module (N27 tells moved and new definitions from the reviewed ones)
inv["toplevel"] = {m: sorted(n.name for n in t.body if isinstance(n, (ast.FunctionDef, ast.AsyncFunctionDef, ast.ClassDef))) for m, t in sorted(trees.items())}
json.dump(inv, open(os.path.join(os.path.dirname(os.path.dirname(os.path.abspath(__file__))), "sa", "inventory.json"), "w"), indent=0)
print(len(inv["functions"]), "functions,", sum(len(v) for v in inv["attrs"].values()), "attributes in", len(inv["attrs"]), "classes")
