import sys, ast; sys.path.insert(0,'/verif')
from sa.model import Repo
import os
root, mod, qual = sys.argv[1], sys.argv[2], sys.argv[3]
r = Repo(root)
print(r.modules[mod].normal_form)
print(ast.unparse(r.fn(f"{mod}:{qual}").node))
