#!/bin/sh
# tools/verify_refactor.sh <dir with patch.diff> <tag>
# confirms in a scratch worktree of /repo HEAD that the patch applies and the whole suite passes with it.
D=$(readlink -f "$1"); TAG=$2
W=/tmp/vs/$TAG
rm -rf "$W"; git -C /repo worktree add -q --detach "$W" HEAD || exit 9
cd "$W"
if ! git apply "$D/patch.diff" 2>"$W.apply.log"; then echo "$TAG APPLY-FAILED"; cd /; git -C /repo worktree remove --force "$W"; exit 3; fi
s=$(timeout 1500 /venv/bin/python -m pytest -q -p no:cacheprovider --timeout=900 2>&1 | grep -E "passed|failed" | tail -1)
case "$s" in *failed*) s2=$(timeout 1500 /venv/bin/python -m pytest -q -p no:cacheprovider --timeout=900 2>&1 | grep -E "passed|failed" | tail -1); s="$s || rerun: $s2";; esac
echo "$TAG suite=[$s]"
cd /; git -C /repo worktree remove --force "$W"; rm -f "$W".*.log
